package main

// Family expand (C05): component expansion by the REAL decoder on crafted FIT streams.
//
//	expand <msg> <msg> ...        one sequence (one decoder, one accumulator) made of these wire messages
//	                              → on <msg>... off <msg>...   (decoded with expansion on / with WithNoComponentExpansion)
//	                              | err:<class>
//	                              a token "/" ends a sequence: the following messages are the next FIT sequence of the SAME
//	                              stream (chained file, one decoder, Next/Decode); the answer carries "/" at the same places
//	expandx <idx> <lo> <n> <msg>  the template message with the scalar field at index <idx> taking every raw value
//	                              lo..lo+n-1 in turn: n messages in ONE sequence, expansion on
//	                              → n=<n> digest=<FNV-1a-64 over the printed decoded messages, each followed by '\n'>
//
// <msg>: syntax of msgcodec.go (no blanks). The executor writes a 14-byte header, one definition record and one
// data record per message (little-endian, local message type 0, field size = marshalled size of the value), the file
// CRC, and decodes with checksum verification on.

import (
	"bytes"
	"encoding/binary"
	"fmt"
	"sort"
	"strconv"
	"strings"

	"github.com/muktihari/fit/decoder"
	"github.com/muktihari/fit/kit/hash/crc16"
	"github.com/muktihari/fit/profile/basetype"
	"github.com/muktihari/fit/profile/factory"
	"github.com/muktihari/fit/profile/typedef"
	"github.com/muktihari/fit/proto"
)

func init() {
	families["expand"] = genExpand
	executors["expand"] = execExpand
	executors["expandx"] = execExpandX
}

func exCRC(b []byte) uint16 {
	h := crc16.New()
	h.Write(b)
	return h.Sum16()
}

// exEncode writes the messages as one FIT sequence.
func exEncode(msgs []proto.Message) ([]byte, bool) {
	var rec []byte
	for i := range msgs {
		m := &msgs[i]
		def := []byte{0x40, 0, 0, byte(m.Num), byte(m.Num >> 8), byte(len(m.Fields))}
		data := []byte{0x00}
		if len(m.Fields) > 255 {
			return nil, false
		}
		for j := range m.Fields {
			f := &m.Fields[j]
			if f.FieldBase == nil {
				return nil, false
			}
			vb, err := f.Value.MarshalAppend(nil, proto.LittleEndian)
			if err != nil || len(vb) == 0 || len(vb) > 255 {
				return nil, false
			}
			def = append(def, f.Num, byte(len(vb)), byte(f.BaseType))
			data = append(data, vb...)
		}
		rec = append(rec, def...)
		rec = append(rec, data...)
	}
	hdr := make([]byte, 14)
	hdr[0] = 14
	hdr[1] = 0x20
	binary.LittleEndian.PutUint16(hdr[2:], 21158)
	binary.LittleEndian.PutUint32(hdr[4:], uint32(len(rec)))
	copy(hdr[8:], ".FIT")
	binary.LittleEndian.PutUint16(hdr[12:], exCRC(hdr[:12]))
	out := append(hdr, rec...)
	crc := exCRC(out)
	return append(out, byte(crc), byte(crc>>8)), true
}

// exDecode decodes every sequence of the stream with ONE decoder; the messages of the sequences are returned per sequence.
func exDecode(b []byte, expand bool) ([][]proto.Message, error) {
	var opts []decoder.Option
	if !expand {
		opts = append(opts, decoder.WithNoComponentExpansion())
	}
	dec := decoder.New(bytes.NewReader(b), opts...)
	var res [][]proto.Message
	for dec.Next() {
		fit, err := dec.Decode()
		if err != nil {
			return nil, err
		}
		res = append(res, fit.Messages)
	}
	return res, nil
}

// exSplit splits the operation's tokens at "/" into sequences of messages.
func exSplit(args []string) ([][]proto.Message, bool) {
	seqs := [][]proto.Message{nil}
	for _, a := range args {
		if a == "/" {
			seqs = append(seqs, nil)
			continue
		}
		m, ok := parseMessage(a)
		if !ok {
			return nil, false
		}
		seqs[len(seqs)-1] = append(seqs[len(seqs)-1], m)
	}
	return seqs, true
}

func exEncodeSeqs(seqs [][]proto.Message) ([]byte, bool) {
	var out []byte
	for _, ms := range seqs {
		b, ok := exEncode(ms)
		if !ok {
			return nil, false
		}
		out = append(out, b...)
	}
	return out, true
}

func exPrintSeqs(seqs [][]proto.Message) string {
	parts := make([]string, 0, len(seqs))
	for _, ms := range seqs {
		parts = append(parts, exPrintMsgs(ms))
	}
	return strings.Join(parts, " / ")
}

func exPrintMsgs(ms []proto.Message) string {
	parts := make([]string, len(ms))
	for i := range ms {
		parts[i] = printMessage(&ms[i])
	}
	return strings.Join(parts, " ")
}

func execExpand(args []string) string {
	seqs, ok := exSplit(args)
	if !ok {
		return "bad-op"
	}
	b, ok := exEncodeSeqs(seqs)
	if !ok {
		return "bad-op"
	}
	on, err := exDecode(b, true)
	if err != nil {
		return decErrClass(err)
	}
	off, err := exDecode(b, false)
	if err != nil {
		return decErrClass(err)
	}
	if len(on) != len(seqs) || len(off) != len(seqs) {
		return "err:sequence-count"
	}
	return strings.Join(strings.Fields("on "+exPrintSeqs(on)+" off "+exPrintSeqs(off)), " ")
}

// exSetScalar returns the value of the same scalar type holding the raw pattern.
func exSetScalar(v proto.Value, raw uint64) (proto.Value, bool) {
	switch v.Type() {
	case proto.TypeInt8:
		return proto.Int8(int8(raw)), true
	case proto.TypeUint8:
		return proto.Uint8(uint8(raw)), true
	case proto.TypeInt16:
		return proto.Int16(int16(raw)), true
	case proto.TypeUint16:
		return proto.Uint16(uint16(raw)), true
	case proto.TypeInt32:
		return proto.Int32(int32(raw)), true
	case proto.TypeUint32:
		return proto.Uint32(uint32(raw)), true
	case proto.TypeInt64:
		return proto.Int64(int64(raw)), true
	case proto.TypeUint64:
		return proto.Uint64(raw), true
	}
	return v, false
}

func execExpandX(args []string) string {
	if len(args) != 4 {
		return "bad-op"
	}
	idx, err := strconv.Atoi(args[0])
	lo, err2 := strconv.ParseUint(args[1], 10, 64)
	n, err3 := strconv.ParseUint(args[2], 10, 32)
	tmpl, ok := parseMessage(args[3])
	if err != nil || err2 != nil || err3 != nil || !ok || idx < 0 || idx >= len(tmpl.Fields) || n > 1<<16 {
		return "bad-op"
	}
	msgs := make([]proto.Message, n)
	for i := range msgs {
		m := tmpl
		m.Fields = append([]proto.Field(nil), tmpl.Fields...)
		v, ok := exSetScalar(m.Fields[idx].Value, lo+uint64(i))
		if !ok {
			return "bad-op"
		}
		m.Fields[idx].Value = v
		msgs[i] = m
	}
	b, ok := exEncode(msgs)
	if !ok {
		return "bad-op"
	}
	ons, err4 := exDecode(b, true)
	if err4 != nil {
		return decErrClass(err4)
	}
	if len(ons) != 1 {
		return "err:sequence-count"
	}
	on := ons[0]
	d := uint64(0xcbf29ce484222325)
	for i := range on {
		s := printMessage(&on[i]) + "\n"
		for j := 0; j < len(s); j++ {
			d ^= uint64(s[j])
			d *= 0x100000001b3
		}
	}
	return fmt.Sprintf("n=%d digest=%016x", len(on), d)
}

// ---- generator

type exOwner struct {
	mesgNum typedef.MesgNum
	field   proto.Field
	sub     *proto.SubField // non-nil: the components are those of this sub-field
}

// exOwners lists every profile field (and sub-field) that owns components, from the compiled factory.
func exOwners() []exOwner {
	var res []exOwner
	mesgs := arithProfileMesgs()
	var nums []int
	for n := range mesgs {
		nums = append(nums, int(n))
	}
	sort.Ints(nums)
	for _, n := range nums {
		for _, fl := range mesgs[typedef.MesgNum(n)] {
			if len(fl.Components) > 0 {
				res = append(res, exOwner{typedef.MesgNum(n), fl, nil})
			}
			for i := range fl.SubFields {
				if len(fl.SubFields[i].Components) > 0 {
					res = append(res, exOwner{typedef.MesgNum(n), fl, &fl.SubFields[i]})
				}
			}
		}
	}
	return res
}

// exRandScalar draws a raw pattern for a base type: uniform, small, boundary or invalid.
func exRandPattern(rng *Rng, bits int) uint64 {
	full := uint64(1)<<uint(bits) - 1
	if bits == 64 {
		full = ^uint64(0)
	}
	switch rng.Intn(6) {
	case 0:
		return full
	case 1:
		return full >> 1
	case 2:
		return uint64(rng.Intn(300))
	case 3:
		return 0
	default:
		return (rng.U64() >> uint(rng.Intn(bits))) & full
	}
}

// exValueFor builds a value the decoder reads back unchanged for a factory field: scalar or slice by field.Array.
func exValueFor(rng *Rng, f proto.Field, n int) proto.Value {
	ty, ok := soTyOfBT(f.BaseType)
	if !ok {
		return proto.Value{}
	}
	if !f.Array {
		return soMkValue(ty, exRandPattern(rng, soTyBits[ty]))
	}
	ps := make([]uint64, n)
	for i := range ps {
		ps[i] = exRandPattern(rng, soTyBits[ty])
	}
	return soMkSliceValue(ty, ps)
}

func exField(mn typedef.MesgNum, num byte, v proto.Value) proto.Field {
	f := factory.StandardFactory().CreateField(mn, num)
	f.Value = v
	return f
}

// exFaithful: the wire messages decode (expansion off) to themselves — only such operations are emitted, so the
// model does not need the value reader of the decoder.
func exFaithful(msgs []proto.Message) bool {
	b, ok := exEncode(msgs)
	if !ok {
		return false
	}
	offs, err := exDecode(b, false)
	if err != nil || len(offs) != 1 || len(offs[0]) != len(msgs) {
		return false
	}
	off := offs[0]
	for i := range msgs {
		if printMessage(&off[i]) != printMessage(&msgs[i]) {
			return false
		}
	}
	return true
}

func genExpand(emit func(string), tier string, rng *Rng) {
	thorough := tier == "thorough"
	owners := exOwners()
	count(fmt.Sprintf("owners=%d", len(owners)))
	emitMsgs := func(msgs []proto.Message, tag string) {
		if !exFaithful(msgs) {
			count("dropped-unfaithful")
			return
		}
		emit("expand " + exPrintMsgs(msgs))
		count(tag)
	}
	// fields a sub-field map refers to, set so that the sub-field is selected
	withRef := func(o exOwner, fields []proto.Field) []proto.Field {
		if o.sub == nil || len(o.sub.Maps) == 0 {
			return fields
		}
		m := o.sub.Maps[rng.Intn(len(o.sub.Maps))]
		ref := factory.StandardFactory().CreateField(o.mesgNum, m.RefFieldNum)
		ty, ok := soTyOfBT(ref.BaseType)
		if !ok {
			return fields
		}
		ref.Value = soMkValue(ty, uint64(m.RefFieldValue))
		return append([]proto.Field{ref}, fields...)
	}
	// a destination of one of the owner's components may itself be a dynamic field whose SUB-FIELD owns components
	// (event.data16 -> event.data, whose gear_change_data sub-field is selected by event = front/rear_gear_change):
	// put the reference field of such a sub-field in front, so that the recursion goes through the sub-field
	withDestRef := func(o exOwner, fields []proto.Field) []proto.Field {
		comps := o.field.Components
		if o.sub != nil {
			comps = o.sub.Components
		}
		type cand struct{ m proto.SubFieldMap }
		var cands []cand
		for _, c := range comps {
			d := factory.StandardFactory().CreateField(o.mesgNum, c.FieldNum)
			for i := range d.SubFields {
				if len(d.SubFields[i].Components) == 0 {
					continue
				}
				for _, m := range d.SubFields[i].Maps {
					cands = append(cands, cand{m})
				}
			}
		}
		if len(cands) == 0 {
			return fields
		}
		m := cands[rng.Intn(len(cands))].m
		for i := range fields {
			if fields[i].Num == m.RefFieldNum {
				return fields
			}
		}
		ref := factory.StandardFactory().CreateField(o.mesgNum, m.RefFieldNum)
		ty, ok := soTyOfBT(ref.BaseType)
		if !ok {
			return fields
		}
		ref.Value = soMkValue(ty, uint64(m.RefFieldValue))
		count("destination-subfield-ref")
		return append([]proto.Field{ref}, fields...)
	}
	for _, o := range owners {
		ty, ok := soTyOfBT(o.field.BaseType)
		if !ok {
			continue
		}
		bits := soTyBits[ty]
		// 1. scalar containers of 8/16 bits: every raw value (digest operations, one sequence per chunk)
		if !o.field.Array && bits <= 16 {
			total := uint64(1) << uint(bits)
			chunk := uint64(4096)
			for lo := uint64(0); lo < total; lo += chunk {
				n := chunk
				if lo+n > total {
					n = total - lo
				}
				f := o.field
				f.Value = soMkValue(ty, 0)
				fields := withRef(o, []proto.Field{f})
				m := proto.Message{Num: o.mesgNum, Fields: fields}
				line := fmt.Sprintf("expandx %d %d %d %s", len(fields)-1, lo, n, printMessage(&m))
				emit(line)
				count("exhaustive-chunk")
			}
			count("exhaustive-8/16-container")
			// directed search: the first raw value whose expanded copy (same scale and offset) differs from it
			if len(o.field.Components) == 1 && o.sub == nil {
				c := o.field.Components[0]
				d := factory.StandardFactory().CreateField(o.mesgNum, c.FieldNum)
				if c.Scale == d.Scale && c.Offset == d.Offset && !c.Accumulate {
					for raw := uint64(0); raw < total; raw++ {
						f := o.field
						f.Value = soMkValue(ty, raw)
						if !f.Value.Valid(f.BaseType) {
							continue
						}
						msgs := []proto.Message{{Num: o.mesgNum, Fields: []proto.Field{f}}}
						b, _ := exEncode(msgs)
						ons, err := exDecode(b, true)
						if err != nil || len(ons) != 1 || len(ons[0]) != 1 || len(ons[0][0].Fields) != 2 {
							continue
						}
						on := ons[0]
						if _, ps, _ := soPatterns(on[0].Fields[1].Value.Any()); len(ps) == 1 && ps[0] != raw {
							emitMsgs(msgs, "directed-single")
							break
						}
					}
				}
			}
		}
		// 2. single messages with sampled / boundary container values (all owners, arrays of every length)
		k := 40
		if thorough {
			k = 600
		}
		for i := 0; i < k; i++ {
			f := o.field
			n := 1 + rng.Intn(12)
			if f.Array && rng.Intn(3) == 0 {
				n = 1 + rng.Intn(255/(bits/8))
			}
			f.Value = exValueFor(rng, f, n)
			fields := withRef(o, []proto.Field{f})
			if rng.Intn(2) == 0 {
				fields = withDestRef(o, fields)
			}
			// sometimes the destination is present on the wire too (before or after the container)
			if rng.Intn(4) == 0 {
				comps := o.field.Components
				if o.sub != nil {
					comps = o.sub.Components
				}
				c := comps[rng.Intn(len(comps))]
				d := factory.StandardFactory().CreateField(o.mesgNum, c.FieldNum)
				if d.Name != factory.NameUnknown {
					d.Value = exValueFor(rng, d, 1+rng.Intn(3))
					if rng.Bool() {
						fields = append(fields, d)
					} else {
						fields = append([]proto.Field{d}, fields...)
					}
				}
			}
			emitMsgs([]proto.Message{{Num: o.mesgNum, Fields: fields}}, "single")
		}
	}
	// 3. histories: sequences of 1..50 messages of the accumulating owners with wrapping counters, mixed with
	//    other messages, wire destinations and unknown fields
	var accOwners []exOwner
	for _, o := range owners {
		comps := o.field.Components
		for _, c := range comps {
			if c.Accumulate {
				accOwners = append(accOwners, o)
				break
			}
		}
	}
	count(fmt.Sprintf("accumulating-owners=%d", len(accOwners)))
	nh := 300
	if thorough {
		nh = 6000
	}
	for i := 0; i < nh; i++ {
		var msgs []proto.Message
		ln := 1 + rng.Intn(50)
		o := accOwners[rng.Intn(len(accOwners))]
		ty, _ := soTyOfBT(o.field.BaseType)
		bits := soTyBits[ty]
		// one true counter per component, advancing by less than 2^bits
		truth := make([]uint64, len(o.field.Components))
		for j := range truth {
			truth[j] = rng.U64() >> uint(40+rng.Intn(24))
		}
		for j := 0; j < ln; j++ {
			if rng.Intn(10) == 0 { // an unrelated message in between
				o2 := owners[rng.Intn(len(owners))]
				f := o2.field
				f.Value = exValueFor(rng, f, 1+rng.Intn(6))
				msgs = append(msgs, proto.Message{Num: o2.mesgNum, Fields: []proto.Field{f}})
				continue
			}
			// pack the components' current counter values (mod 2^bits each) into the container
			var packed []byte
			var cur uint64
			var nb uint
			for ci, c := range o.field.Components {
				step := rng.U64() & (1<<uint(c.Bits) - 1)
				if rng.Intn(3) == 0 {
					step = uint64(rng.Intn(3))
				}
				truth[ci] += step
				v := truth[ci] & (1<<uint(c.Bits) - 1)
				cur |= v << nb
				nb += uint(c.Bits)
				for nb >= 8 {
					packed = append(packed, byte(cur))
					cur >>= 8
					nb -= 8
				}
			}
			if nb > 0 {
				packed = append(packed, byte(cur))
			}
			f := o.field
			if f.Array {
				es := bits / 8
				for len(packed)%es != 0 {
					packed = append(packed, 0)
				}
				ps := make([]uint64, len(packed)/es)
				for q := range ps {
					for r := 0; r < es; r++ {
						ps[q] |= uint64(packed[q*es+r]) << (8 * uint(r))
					}
				}
				f.Value = soMkSliceValue(ty, ps)
			} else {
				var p uint64
				for r := 0; r < len(packed) && r < 8; r++ {
					p |= uint64(packed[r]) << (8 * uint(r))
				}
				f.Value = soMkValue(ty, p)
			}
			fields := []proto.Field{f}
			if rng.Intn(6) == 0 { // the accumulated destination also on the wire (collected, then overwritten)
				c := o.field.Components[rng.Intn(len(o.field.Components))]
				d := factory.StandardFactory().CreateField(o.mesgNum, c.FieldNum)
				if d.Name != factory.NameUnknown {
					d.Value = exValueFor(rng, d, 1+rng.Intn(3))
					fields = append([]proto.Field{d}, fields...)
				}
			}
			if rng.Intn(8) == 0 { // an unknown field
				fb := &proto.FieldBase{Name: factory.NameUnknown, Num: byte(200 + rng.Intn(40)), BaseType: basetype.Uint16, Scale: 1}
				fields = append(fields, proto.Field{FieldBase: fb, Value: proto.Uint16(uint16(rng.U64()))})
			}
			msgs = append(msgs, proto.Message{Num: o.mesgNum, Fields: fields})
		}
		emitMsgs(msgs, "history")
	}
	// 3b. histories mixing a WIRE value of an accumulated destination with samples of the accumulating component
	//     (record.distance + compressed_speed_distance, hr.event_timestamp + event_timestamp_12, and every other
	//     accumulating component of the profile): the destination alone in an earlier message, in the same message
	//     before / after the container, and again later (re-seeding). The wire value is chosen so that it is a whole
	//     number of the component's units (that is where the specification determines the total).
	type accPair struct {
		o  exOwner
		ci int
	}
	var pairs []accPair
	for _, o := range owners {
		comps := o.field.Components
		if o.sub != nil {
			comps = o.sub.Components
		}
		for ci, c := range comps {
			if c.Accumulate {
				pairs = append(pairs, accPair{o, ci})
			}
		}
	}
	count(fmt.Sprintf("accumulating-components=%d", len(pairs)))
	nm := 12
	if thorough {
		nm = 150
	}
	for _, pr := range pairs {
		o := pr.o
		comps := o.field.Components
		if o.sub != nil {
			comps = o.sub.Components
		}
		c := comps[pr.ci]
		d := factory.StandardFactory().CreateField(o.mesgNum, c.FieldNum)
		dty, ok := soTyOfBT(d.BaseType)
		cty, ok2 := soTyOfBT(o.field.BaseType)
		if !ok || !ok2 || d.Name == factory.NameUnknown {
			continue
		}
		// a destination value that is a whole number of component units: total T (component units) -> v
		seedVal := func() (uint64, bool) {
			for try := 0; try < 40; try++ {
				t := rng.U64() >> uint(36+rng.Intn(26))
				if rng.Intn(3) == 0 {
					t *= 4
				}
				x := ((float64(t)/c.Scale - c.Offset) + d.Offset) * d.Scale
				if x >= 0 && x < 4294967295 && x == float64(uint64(x)) {
					return uint64(x), true
				}
			}
			return 0, false
		}
		destField := func() (proto.Field, bool) {
			v, ok := seedVal()
			if !ok {
				return proto.Field{}, false
			}
			f := d
			if d.Array {
				n := 1 + rng.Intn(3)
				ps := make([]uint64, n)
				for q := range ps {
					ps[q] = uint64(rng.Intn(5000))
				}
				ps[n-1] = v
				f.Value = soMkSliceValue(dty, ps)
			} else {
				f.Value = soMkValue(dty, v)
			}
			return f, true
		}
		// a container whose components are non-zero samples
		container := func() proto.Field {
			var packed []byte
			var cur uint64
			var nb uint
			for _, cc := range comps {
				s := rng.U64() & (1<<uint(cc.Bits) - 1)
				if s == 0 {
					s = 1
				}
				cur |= s << nb
				nb += uint(cc.Bits)
				for nb >= 8 {
					packed = append(packed, byte(cur))
					cur >>= 8
					nb -= 8
				}
			}
			if nb > 0 {
				packed = append(packed, byte(cur))
			}
			f := o.field
			es := soTyBits[cty] / 8
			if f.Array {
				for len(packed)%es != 0 {
					packed = append(packed, 0)
				}
				ps := make([]uint64, len(packed)/es)
				for q := range ps {
					for r := 0; r < es; r++ {
						ps[q] |= uint64(packed[q*es+r]) << (8 * uint(r))
					}
				}
				f.Value = soMkSliceValue(cty, ps)
			} else {
				var p uint64
				for r := 0; r < len(packed) && r < 8; r++ {
					p |= uint64(packed[r]) << (8 * uint(r))
				}
				f.Value = soMkValue(cty, p)
			}
			return f
		}
		for i := 0; i < nm; i++ {
			var msgs []proto.Message
			ln := 2 + rng.Intn(5)
			for j := 0; j < ln; j++ {
				var fields []proto.Field
				switch k := rng.Intn(6); {
				case j == 0 || k == 0: // the destination alone
					if df, ok := destField(); ok {
						fields = []proto.Field{df}
					}
				case k == 1: // destination before the container
					if df, ok := destField(); ok {
						fields = []proto.Field{df}
					}
					fields = append(fields, withRef(o, []proto.Field{container()})...)
				case k == 2: // destination after the container
					fields = withRef(o, []proto.Field{container()})
					if df, ok := destField(); ok {
						fields = append(fields, df)
					}
				default:
					fields = withRef(o, []proto.Field{container()})
				}
				if len(fields) > 0 {
					msgs = append(msgs, proto.Message{Num: o.mesgNum, Fields: fields})
				}
			}
			if len(msgs) >= 2 && rng.Intn(4) == 0 {
				// the same messages as TWO chained sequences of one stream: the totals do not carry over
				cut := 1 + rng.Intn(len(msgs)-1)
				if exFaithful(msgs[:cut]) && exFaithful(msgs[cut:]) {
					emit("expand " + exPrintSeqs([][]proto.Message{msgs[:cut], msgs[cut:]}))
					count("history-two-sequences")
				} else {
					count("dropped-unfaithful")
				}
				continue
			}
			emitMsgs(msgs, "history-wire-destination")
		}
	}
	// 4. messages that own no components, unknown messages: expansion changes nothing
	for i := 0; i < 60; i++ {
		mn := []typedef.MesgNum{0, 49, 23, 65280, 300, 34}[rng.Intn(6)]
		var fields []proto.Field
		for j := rng.Intn(5); j >= 0; j-- {
			f := factory.StandardFactory().CreateField(mn, byte(rng.Intn(12)))
			if f.Name == factory.NameUnknown {
				f.BaseType = basetype.Uint8
				f.Value = proto.Uint8(uint8(rng.U64()))
			} else {
				f.Value = exValueFor(rng, f, 1+rng.Intn(3))
			}
			if f.Value.Type() != proto.TypeInvalid {
				fields = append(fields, f)
			}
		}
		if len(fields) > 0 {
			emitMsgs([]proto.Message{{Num: mn, Fields: fields}}, "no-components")
		}
	}
}
