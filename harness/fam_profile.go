package main

// Family `profilerows` (property C17): the LIVE generated packages, row by row, in a canonical text form.
//
//	pmesgx <mesgnum>            → factory.StandardFactory().CreateMesg(n): number, name, fields sorted by number
//	pfield <mesgnum> <num>    → factory.StandardFactory().CreateField(n, num) (the lookup path the decoder uses)
//	ptype <index>             → the index-th profile type: name, base type, ListXxx() values with String()
//	pstr <index>              → the same type: XxxInvalid, and (value, String, FromString(String)) per listed constant
//
// The Lean driver answers from the regenerated dump (model), and in --spec mode from the independent reading of
// Profile.xlsx, so a differing row is reported with its message / field number as the replay.
//
// Rendering (texts escaped: bytes outside [A-Za-z0-9_] as %XX; float64 as 16 hex digits):
//
//	field  F<num>:<name>:<ptype>:<bt>:<a|->:<c|->:<scale>:<offset>:<units>:[<comp>,…]:[<sub>,…]
//	comp   C<num>/<scale>/<offset>/<bits>/<c|->
//	sub    S<name>/<ptype>/<scale>/<offset>/<units>/[<comp>,…]/[M<refnum>=<refval>,…]

import (
	"fmt"
	"math"
	"reflect"
	"strconv"
	"strings"

	"github.com/muktihari/fit/profile"
	"github.com/muktihari/fit/profile/basetype"
	"github.com/muktihari/fit/profile/factory"
	"github.com/muktihari/fit/profile/typedef"
	"github.com/muktihari/fit/proto"
)

func init() {
	families["profilerows"] = genProfileRows
	executors["pmesgx"] = execProw
	executors["pfield"] = execPfield
	executors["ptype"] = execPtype
	executors["pstr"] = execPstr
}

func escText(s string) string {
	var b strings.Builder
	for i := 0; i < len(s); i++ {
		c := s[i]
		if c >= 'a' && c <= 'z' || c >= 'A' && c <= 'Z' || c >= '0' && c <= '9' || c == '_' {
			b.WriteByte(c)
		} else {
			fmt.Fprintf(&b, "%%%02X", c)
		}
	}
	return b.String()
}

func pfFlag(b bool, c string) string {
	if b {
		return c
	}
	return "-"
}

func renderComps(cs []proto.Component) string {
	out := make([]string, len(cs))
	for i, c := range cs {
		out[i] = fmt.Sprintf("C%d/%016x/%016x/%d/%s", c.FieldNum, math.Float64bits(c.Scale), math.Float64bits(c.Offset), c.Bits, pfFlag(c.Accumulate, "c"))
	}
	return "[" + strings.Join(out, ",") + "]"
}

func renderFieldBase(f *proto.FieldBase) string {
	subs := make([]string, len(f.SubFields))
	for i, s := range f.SubFields {
		maps := make([]string, len(s.Maps))
		for j, m := range s.Maps {
			maps[j] = fmt.Sprintf("M%d=%d", m.RefFieldNum, m.RefFieldValue)
		}
		subs[i] = fmt.Sprintf("S%s/%s/%016x/%016x/%s/%s/[%s]", escText(s.Name), escText(s.Type.String()), math.Float64bits(s.Scale),
			math.Float64bits(s.Offset), escText(s.Units), renderComps(s.Components), strings.Join(maps, ","))
	}
	return fmt.Sprintf("F%d:%s:%s:%d:%s:%s:%016x:%016x:%s:%s:[%s]", f.Num, escText(f.Name), escText(f.Type.String()), byte(f.BaseType),
		pfFlag(f.Array, "a"), pfFlag(f.Accumulate, "c"), math.Float64bits(f.Scale), math.Float64bits(f.Offset), escText(f.Units),
		renderComps(f.Components), strings.Join(subs, ","))
}

func execProw(args []string) string {
	if len(args) != 1 {
		return "bad-op"
	}
	n, err := strconv.ParseUint(args[0], 10, 16)
	if err != nil {
		return "bad-op"
	}
	fs := sortedFieldBases(int(n))
	if len(fs) == 0 {
		return "none"
	}
	out := []string{fmt.Sprint(n), escText(typedef.MesgNum(n).String())}
	for _, f := range fs {
		out = append(out, renderFieldBase(f))
	}
	return strings.Join(out, " ")
}

func execPfield(args []string) string {
	if len(args) != 2 {
		return "bad-op"
	}
	n, err := strconv.ParseUint(args[0], 10, 16)
	k, err2 := strconv.ParseUint(args[1], 10, 8)
	if err != nil || err2 != nil {
		return "bad-op"
	}
	f := factory.StandardFactory().CreateField(typedef.MesgNum(n), byte(k))
	if f.FieldBase == nil {
		return "nil"
	}
	return renderFieldBase(f.FieldBase)
}

// profileTypeEntries: the non-base profile types in ListProfileType order joined with the registry (as in the dump)
type ptEntry struct {
	pt  profile.ProfileType
	reg regType
}

func profileTypeEntries() []ptEntry {
	reg := map[string]regType{}
	for _, t := range typedefTypes {
		reg[normTypeName(t.name)] = t
	}
	reg[normTypeName("fit_base_type")] = regType{"FitBaseType", basetype.List, basetype.FromString}
	baseNames := map[string]bool{"bool": true}
	for _, bt := range basetype.List() {
		baseNames[bt.String()] = true
	}
	var out []ptEntry
	for _, pt := range profile.ListProfileType() {
		if baseNames[pt.String()] {
			continue
		}
		if t, ok := reg[normTypeName(pt.String())]; ok {
			out = append(out, ptEntry{pt, t})
		}
	}
	return out
}

func ptEntryAt(args []string) (ptEntry, bool) {
	if len(args) != 1 {
		return ptEntry{}, false
	}
	i, err := strconv.Atoi(args[0])
	es := profileTypeEntries()
	if err != nil || i < 0 || i >= len(es) {
		return ptEntry{}, false
	}
	return es[i], true
}

func execPtype(args []string) string {
	e, ok := ptEntryAt(args)
	if !ok {
		return "none"
	}
	list := reflect.ValueOf(e.reg.list).Call(nil)[0]
	out := []string{escText(e.pt.String()), fmt.Sprint(byte(e.pt.BaseType()))}
	for j := 0; j < list.Len(); j++ {
		c := list.Index(j)
		out = append(out, fmt.Sprintf("%d=%s", uintOf(c), escText(stringOf(c))))
	}
	return strings.Join(out, " ")
}

func execPstr(args []string) string {
	e, ok := ptEntryAt(args)
	if !ok {
		return "none"
	}
	list := reflect.ValueOf(e.reg.list).Call(nil)[0]
	from := reflect.ValueOf(e.reg.fromString)
	inv := from.Call([]reflect.Value{reflect.ValueOf("\x00no such constant\x00")})[0]
	invBack := from.Call([]reflect.Value{reflect.ValueOf(stringOf(inv))})[0]
	out := []string{escText(e.pt.String()), fmt.Sprintf("inv=%d/%d", uintOf(inv), uintOf(invBack))}
	for j := 0; j < list.Len(); j++ {
		c := list.Index(j)
		s := stringOf(c)
		back := from.Call([]reflect.Value{reflect.ValueOf(s)})[0]
		out = append(out, fmt.Sprintf("%d=%s=%d", uintOf(c), escText(s), uintOf(back)))
	}
	return strings.Join(out, " ")
}

func genProfileRows(emit func(string), tier string, rng *Rng) {
	nums := factoryMesgNums()
	known := map[int]bool{}
	for _, n := range nums {
		known[n] = true
		emit(fmt.Sprintf("pmesgx %d", n))
		count("pmesgx")
	}
	// every (message, field number) of the known messages: the CreateField lookup path, hits and misses
	for _, n := range nums {
		for k := 0; k < 256; k++ {
			emit(fmt.Sprintf("pfield %d %d", n, k))
		}
		count("pfield-known-mesg")
	}
	// message numbers the factory does not know: neighbours of the known ones, the manufacturer range, random
	extra := map[int]bool{}
	for _, n := range nums {
		for _, d := range []int{-1, 1} {
			if m := n + d; m >= 0 && m < 65536 && !known[m] {
				extra[m] = true
			}
		}
	}
	for _, m := range []int{409, 410, 411, 0xFF00, 0xFFFE, 0xFFFF} {
		if !known[m] {
			extra[m] = true
		}
	}
	nr := 200
	if tier == "thorough" { // every message number
		for m := 0; m < 65536; m++ {
			if !known[m] {
				extra[m] = true
			}
		}
		nr = 0
	}
	for i := 0; i < nr; i++ {
		if m := rng.Intn(65536); !known[m] {
			extra[m] = true
		}
	}
	for m := 0; m < 65536; m++ {
		if extra[m] {
			emit(fmt.Sprintf("pmesgx %d", m))
			emit(fmt.Sprintf("pfield %d %d", m, rng.Intn(256)))
			emit(fmt.Sprintf("pfield %d 253", m))
			count("unknown-mesg")
		}
	}
	es := profileTypeEntries()
	for i := 0; i <= len(es); i++ { // one past the end: "none" on both sides
		emit(fmt.Sprintf("ptype %d", i))
		emit(fmt.Sprintf("pstr %d", i))
		count("type")
	}
}
