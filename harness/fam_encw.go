package main

import (
	"bytes"
	"encoding/hex"
	"errors"
	"fmt"
	"io"
	"strconv"
	"strings"

	"github.com/muktihari/fit/encoder"
	"github.com/muktihari/fit/profile/basetype"
	"github.com/muktihari/fit/proto"
)

func init() {
	families["encw"] = genEncW
	executors["encw"] = execEncW
}

// ---- destinations of the four kinds the encoder distinguishes

type memDest struct {
	buf []byte
	pos int64
	ops []string
}

func (d *memDest) write(p []byte) (int, error) {
	end := d.pos + int64(len(p))
	if end > int64(len(d.buf)) {
		d.buf = append(d.buf, make([]byte, end-int64(len(d.buf)))...)
	}
	copy(d.buf[d.pos:], p)
	d.pos = end
	return len(p), nil
}
func (d *memDest) writeAt(p []byte, off int64) (int, error) {
	end := off + int64(len(p))
	if end > int64(len(d.buf)) {
		d.buf = append(d.buf, make([]byte, end-int64(len(d.buf)))...)
	}
	copy(d.buf[off:], p)
	return len(p), nil
}
func (d *memDest) seek(off int64, whence int) (int64, error) {
	var np int64
	switch whence {
	case io.SeekStart:
		np = off
	case io.SeekCurrent:
		np = d.pos + off
	case io.SeekEnd:
		np = int64(len(d.buf)) + off
	}
	if np < 0 {
		return 0, errors.New("negative seek")
	}
	d.pos = np
	return np, nil
}

type plainW struct{ d *memDest }

func (w plainW) Write(p []byte) (int, error) { return w.d.write(p) }

type atW struct{ d *memDest }

func (w atW) Write(p []byte) (int, error)            { return w.d.write(p) }
func (w atW) WriteAt(p []byte, o int64) (int, error) { return w.d.writeAt(p, o) }

type seekW struct{ d *memDest }

func (w seekW) Write(p []byte) (int, error)         { return w.d.write(p) }
func (w seekW) Seek(o int64, wh int) (int64, error) { return w.d.seek(o, wh) }

type bothW struct{ d *memDest }

func (w bothW) Write(p []byte) (int, error)            { return w.d.write(p) }
func (w bothW) WriteAt(p []byte, o int64) (int, error) { return w.d.writeAt(p, o) }
func (w bothW) Seek(o int64, wh int) (int64, error)    { return w.d.seek(o, wh) }

func newDest(kind string) (io.Writer, *memDest) {
	d := &memDest{}
	switch kind {
	case "at":
		return atW{d}, d
	case "seek":
		return seekW{d}, d
	case "both":
		return bothW{d}, d
	default:
		return plainW{d}, d
	}
}

// pass-through validator: the wire families tie the framing logic, not validation (C10 does that)
type noValidator struct{}

func (noValidator) Validate(*proto.Message) error { return nil }
func (noValidator) Reset()                        {}

type encwOpts struct {
	arch, hopt, lmt, pv, bs int
	w                       string
}

func parseKV(toks []string) (map[string]string, []string) {
	kv := map[string]string{}
	i := 0
	for ; i < len(toks); i++ {
		k, v, ok := strings.Cut(toks[i], "=")
		if !ok {
			break
		}
		kv[k] = v
	}
	return kv, toks[i:]
}

func atoi(s string) int { n, _ := strconv.Atoi(s); return n }

func encErrClass(err error) string {
	switch {
	case err == nil:
		return "ok"
	case errors.Is(err, proto.ErrProtocolViolation):
		return "err:proto"
	case strings.Contains(err.Error(), "empty messages"):
		return "err:empty"
	default:
		return "err:other"
	}
}

// encw a=<arch> h=<headerOption> l=<localMessageType> pv=<protocol version option, 0 = none> w=<plain|at|seek|both> bs=<write buffer size> <files…>
func execEncW(args []string) string {
	kv, rest := parseKV(args)
	files, ok := parseWFiles(rest)
	if !ok {
		return "bad-op"
	}
	arch := byte(atoi(kv["a"]))
	opts := []encoder.Option{encoder.WithMessageValidator(noValidator{}), encoder.WithWriteBufferSize(atoi(kv["bs"]))}
	if arch == 1 {
		opts = append(opts, encoder.WithBigEndian())
	}
	opts = append(opts, encoder.WithHeaderOption(encoder.HeaderOption(atoi(kv["h"])), byte(atoi(kv["l"]))))
	if pv := atoi(kv["pv"]); pv != 0 {
		opts = append(opts, encoder.WithProtocolVersion(proto.Version(pv)))
	}
	w, d := newDest(kv["w"])
	// A third of the lines whose destination knows its own position (plain, seek, both — a WriterAt alone is
	// documented to need an empty destination) start with a destination that already holds 37 foreign bytes and
	// is positioned behind them (the documented recipe for appending to an existing file). The encoder must
	// leave them alone and write exactly what it writes to an empty destination: the prefix is checked and
	// stripped here, the model never sees it (seeded change C02-2: WriteAt at offset 0 preferred over Seek).
	pre := 0
	if kv["w"] != "at" {
		h := 0
		for _, a := range args {
			for i := 0; i < len(a); i++ {
				h = (h*131 + int(a[i])) & 0xffffff
			}
		}
		if h%3 == 0 {
			pre = 37
			d.buf = bytes.Repeat([]byte{0xEE}, pre)
			d.pos = int64(pre)
		}
	}
	enc := encoder.New(w, opts...)
	status := "ok"
	var wb []string
	for _, f := range files {
		fit, ok := f.toProto(arch)
		if !ok {
			return "bad-op"
		}
		err := enc.Encode(fit)
		if err != nil {
			status = encErrClass(err)
			break
		}
		wb = append(wb, fmt.Sprintf("%d.%d.%d.%d.%d", fit.FileHeader.Size, fit.FileHeader.ProtocolVersion, fit.FileHeader.DataSize, fit.FileHeader.CRC, fit.CRC))
	}
	if pre > 0 {
		if len(d.buf) < pre || !bytes.Equal(d.buf[:pre], bytes.Repeat([]byte{0xEE}, pre)) {
			return "prefix-clobbered " + hex.EncodeToString(d.buf)
		}
		d.buf = d.buf[pre:]
	}
	// the library's own integrity check on what arrived at the destination (C02: "accepts the stream and counts the same number of sequences")
	return fmt.Sprintf("%s %s wb=%s ci=%s", status, hex.EncodeToString(d.buf), strings.Join(wb, ","), wrCheck(d.buf))
}

// ---- generator

var wScalarTags = []proto.Type{proto.TypeBool, proto.TypeInt8, proto.TypeUint8, proto.TypeInt16, proto.TypeUint16, proto.TypeInt32,
	proto.TypeUint32, proto.TypeInt64, proto.TypeUint64, proto.TypeFloat32, proto.TypeFloat64, proto.TypeString}

var tagBaseTypes = map[proto.Type][]basetype.BaseType{
	proto.TypeBool: {basetype.Enum}, proto.TypeInt8: {basetype.Sint8}, proto.TypeUint8: {basetype.Uint8, basetype.Uint8z, basetype.Enum, basetype.Byte},
	proto.TypeInt16: {basetype.Sint16}, proto.TypeUint16: {basetype.Uint16, basetype.Uint16z}, proto.TypeInt32: {basetype.Sint32},
	proto.TypeUint32: {basetype.Uint32, basetype.Uint32z}, proto.TypeInt64: {basetype.Sint64}, proto.TypeUint64: {basetype.Uint64, basetype.Uint64z},
	proto.TypeFloat32: {basetype.Float32}, proto.TypeFloat64: {basetype.Float64}, proto.TypeString: {basetype.String},
}

func sliceOf(t proto.Type) proto.Type { return t + (proto.TypeSliceBool - proto.TypeBool) }
func scalarOf(t proto.Type) proto.Type {
	if t >= proto.TypeSliceBool {
		return t - (proto.TypeSliceBool - proto.TypeBool)
	}
	return t
}

// randWireValue: (tag, marshalled bytes in arch order) of a random value
func randWireValue(rng *Rng, arch byte, maxElems int) (proto.Type, []byte) {
	st := wScalarTags[rng.Intn(len(wScalarTags))]
	es := elemSize[st]
	if st == proto.TypeString {
		n := rng.Intn(6)
		b := make([]byte, 0, n+1)
		for i := 0; i < n; i++ {
			b = append(b, byte('a'+rng.Intn(26)))
		}
		b = append(b, 0)
		if rng.Intn(4) == 0 { // string array
			k := 1 + rng.Intn(4)
			var all []byte
			for j := 0; j < k; j++ {
				if j > 0 && j < k-1 && rng.Intn(2) == 0 {
					all = append(all, 0) // an empty element between non-empty ones: one terminator, no content (seeded C02-3)
					continue
				}
				all = append(all, byte('A'+rng.Intn(26)), 0)
			}
			return proto.TypeSliceString, all
		}
		return proto.TypeString, b
	}
	if rng.Intn(4) == 0 { // array
		n := rng.Intn(maxElems + 1)
		switch rng.Intn(6) {
		case 0:
			n = 0
		case 1:
			n = 255 / es
		}
		return sliceOf(st), canonBool(st, rng.Bytes(n*es))
	}
	b := rng.Bytes(es)
	switch rng.Intn(6) {
	case 0:
		for i := range b {
			b[i] = 0xFF
		}
	case 1:
		for i := range b {
			b[i] = 0
		}
	}
	return st, canonBool(st, b)
}

// a bool marshals to 0, 1 or 255 only
func canonBool(st proto.Type, b []byte) []byte {
	if st == proto.TypeBool {
		for i := range b {
			b[i] = []byte{0, 1, 255}[b[i]%3]
		}
	}
	return b
}

func putU32(arch byte, v uint32) []byte {
	if arch == 0 {
		return []byte{byte(v), byte(v >> 8), byte(v >> 16), byte(v >> 24)}
	}
	return []byte{byte(v >> 24), byte(v >> 16), byte(v >> 8), byte(v)}
}

type shape struct {
	num    int
	fields []wField // data regenerated per use when scalar; kept for arrays to keep sizes stable
	devs   []wField
	hasTs  bool
}

// one field 253 of the given kind around timestamp ts (kind 0 = the plain uint32 date-time)
func tsFieldOfKind(rng *Rng, arch byte, ts uint32, kind int) wField {
	u32 := func(bt basetype.BaseType, v uint32) wField {
		return wField{num: 253, bt: int(bt), tag: int(proto.TypeUint32), data: putU32(arch, v)}
	}
	switch kind {
	case 1: // invalid value kept in the message
		count("ts:invalid")
		return u32(basetype.Uint32, 0xFFFFFFFF)
	case 2: // below DateTimeMin (a system time)
		count("ts:below-min")
		return u32(basetype.Uint32, []uint32{uint32(rng.Intn(0x10000000)), 0x0FFFFFFF, 0, uint32(rng.Intn(32)), ts & 0x0FFFFFFF, 0x0FFFFFFF - uint32(rng.Intn(31))}[rng.Intn(6)])
	case 3: // one byte
		count("ts:uint8")
		return wField{num: 253, bt: int(basetype.Uint8), tag: int(proto.TypeUint8), data: []byte{byte(rng.Intn(256))}}
	case 4: // array of uint32: 2, 1 or 3 elements
		count("ts:array")
		n := []int{2, 2, 1, 3}[rng.Intn(4)]
		var d []byte
		for i := 0; i < n; i++ {
			d = append(d, putU32(arch, ts+uint32(i))...)
		}
		return wField{num: 253, bt: int(basetype.Uint32), tag: int(proto.TypeSliceUint32), data: d}
	case 5: // uint32z: a plain uint32 as far as timestamps go
		count("ts:uint32z")
		return u32(basetype.Uint32z, ts)
	case 6: // uint32 value declared with another base type
		count("ts:basetype-mismatch")
		return u32([]basetype.BaseType{basetype.Sint32, basetype.Uint8, basetype.Float32, basetype.Byte, basetype.Uint16, basetype.String}[rng.Intn(6)], ts)
	case 7: // the four bytes as a byte array declared uint32 (every decoder reads a uint32, the encoder cannot tell)
		count("ts:bytes")
		return wField{num: 253, bt: int(basetype.Uint32), tag: int(proto.TypeSliceUint8), data: putU32(arch, ts)}
	case 8: // other types
		count("ts:other-type")
		switch rng.Intn(3) {
		case 0:
			return wField{num: 253, bt: int(basetype.String), tag: int(proto.TypeString), data: []byte{'a', 'b', 0}}
		case 1:
			return wField{num: 253, bt: int(basetype.Sint32), tag: int(proto.TypeInt32), data: putU32(arch, ts)}
		default:
			return wField{num: 253, bt: int(basetype.Uint16), tag: int(proto.TypeUint16), data: putU32(arch, ts)[:2]}
		}
	case 9: // size 0: the decoder skips the field
		count("ts:empty")
		return wField{num: 253, bt: int(basetype.Uint32), tag: int(proto.TypeSliceUint32), data: nil}
	}
	return u32(basetype.Uint32, ts)
}

// addTsFields moves the running timestamp and inserts the message's field(s) 253.
func addTsFields(rng *Rng, arch byte, ts *uint32, wild bool, fields []wField) []wField {
	if !wild {
		// monotone small steps, equal, backwards, gaps
		switch rng.Intn(14) {
		case 0, 1, 2, 3, 4:
			*ts += uint32(rng.Intn(4))
		case 5:
			*ts += uint32(rng.Intn(40))
		case 6:
			*ts += 31
		case 7:
			*ts += 32
		case 8:
			*ts -= uint32(rng.Intn(40))
		case 9:
			*ts += 1000
		}
	} else {
		switch rng.Intn(13) {
		case 0, 1, 2:
			*ts += uint32(rng.Intn(4))
		case 3:
			*ts += uint32(rng.Intn(32))
		case 4: // back, inside the window
			*ts -= uint32(1 + rng.Intn(31))
		case 5: // back, beyond the window
			*ts -= uint32(32 + rng.Intn(70))
		case 6:
			*ts += 31
		case 7:
			*ts += 32
		case 8: // just below a multiple of 32: the next small steps wrap the 5-bit offset
			*ts = (*ts | 31) - uint32(rng.Intn(2))
		case 9:
			*ts += 1000
		case 10:
			*ts -= 1000
		case 11: // back by exactly the window / a multiple of it: same offset bits, other time
			*ts -= uint32(32 * (1 + rng.Intn(3)))
		}
	}
	odd, dup := 30, 40
	if wild {
		odd, dup = 5, 6
	}
	kind := 0
	if rng.Intn(odd) == 0 {
		kind = 1 + rng.Intn(9)
	}
	tf := tsFieldOfKind(rng, arch, *ts, kind)
	pos := 0
	if rng.Intn(3) == 0 && len(fields) > 0 {
		pos = rng.Intn(len(fields) + 1)
	}
	fields = append(fields[:pos:pos], append([]wField{tf}, fields[pos:]...)...)
	for rng.Intn(dup) == 0 { // further fields 253, before or behind the first
		count("ts:duplicate")
		var df wField
		switch rng.Intn(6) {
		case 0:
			df = tsFieldOfKind(rng, arch, *ts+5, 0)
		case 1:
			df = tsFieldOfKind(rng, arch, *ts-5, 0)
		case 2:
			df = tsFieldOfKind(rng, arch, *ts+100, 0)
		case 3:
			df = tsFieldOfKind(rng, arch, *ts, 0)
		default:
			df = tsFieldOfKind(rng, arch, *ts+uint32(rng.Intn(3)), 1+rng.Intn(9))
		}
		p := len(fields)
		if rng.Intn(2) == 0 {
			p = rng.Intn(len(fields) + 1)
		}
		fields = append(fields[:p:p], append([]wField{df}, fields[p:]...)...)
		if rng.Intn(2) == 0 { // the following messages continue from the duplicate's time
			*ts += 5
		}
	}
	return fields
}

func genEncW(emit func(string), tier string, rng *Rng) {
	n := 6000
	if tier == "thorough" {
		n = 150000
	}
	for it := 0; it < n; it++ {
		arch := byte(rng.Intn(2))
		hopt := rng.Intn(2)
		if rng.Intn(30) == 0 {
			hopt = 2 + rng.Intn(3)
		}
		lmt := rng.Intn(4)
		switch rng.Intn(5) {
		case 0:
			lmt = rng.Intn(16)
		case 1:
			lmt = rng.Intn(24)
		case 2:
			lmt = 0
		}
		pvOpt := []int{0, 0, 0, 0, 0x20, 0x20, 0x20, 0x21, 0x21, 0x10}[rng.Intn(10)]
		wk := []string{"plain", "at", "seek", "both"}[rng.Intn(4)]
		bs := []int{-1, 0, 1, 2, 13, 14, 15, 64, 4096, 65536}[rng.Intn(10)]
		nfiles := 1
		if rng.Intn(3) == 0 {
			nfiles = 1 + rng.Intn(3)
		}
		// a quarter of the operations carry a developer-data scenario (wire_dev.go): field descriptions with valid / invalid /
		// odd base type ids, redefinitions, descriptions after their use or in an earlier sequence only, developer fields of odd sizes
		var dev *devwPlan
		if rng.Intn(4) == 0 {
			dev = newDevwPlan(rng)
			if rng.Intn(8) != 0 {
				pvOpt = []int{0x20, 0x20, 0x21}[rng.Intn(3)] // developer fields need protocol 2.0
			}
			if rng.Intn(3) != 0 && nfiles == 1 && dev.kind == "earlier-file" {
				nfiles = 2 + rng.Intn(2)
			}
		}
		toks := []string{"encw", fmt.Sprintf("a=%d", arch), fmt.Sprintf("h=%d", hopt), fmt.Sprintf("l=%d", lmt),
			fmt.Sprintf("pv=%d", pvOpt), "w=" + wk, fmt.Sprintf("bs=%d", bs)}
		// shapes reused within the op to exercise the LRU
		nshapes := 1 + rng.Intn(7)
		if rng.Intn(6) == 0 {
			nshapes = 1 + rng.Intn(20)
		}
		shapes := make([]shape, nshapes)
		for i := range shapes {
			s := &shapes[i]
			s.num = []int{0, 18, 19, 20, 21, 49, 206, 207, 65280, 65535, 300}[rng.Intn(11)]
			nf := rng.Intn(5)
			if rng.Intn(25) == 0 {
				nf = 250 + rng.Intn(10)
			}
			s.hasTs = rng.Intn(3) != 0
			for j := 0; j < nf; j++ {
				tag, data := randWireValue(rng, arch, 6)
				bts := tagBaseTypes[scalarOf(tag)]
				s.fields = append(s.fields, wField{num: rng.Intn(253), bt: int(bts[rng.Intn(len(bts))]), tag: int(tag), data: data})
			}
			if rng.Intn(4) == 0 {
				for j := 0; j < 1+rng.Intn(3); j++ {
					tag, data := randWireValue(rng, arch, 4)
					s.devs = append(s.devs, wField{num: rng.Intn(256), bt: rng.Intn(3), tag: int(tag), data: data})
				}
			}
		}
		ts := uint32(0x10000000 + rng.Intn(1<<28))
		switch rng.Intn(10) {
		case 0:
			ts = 0xFFFFFFE0 + uint32(rng.Intn(31)) // next to the invalid sentinel and to the uint32 wrap
		case 1:
			ts = 0x10000000 + uint32(rng.Intn(40)) // next to DateTimeMin
		}
		// a third of the operations have "wild" timestamp histories: going back inside and beyond the 32 s window,
		// crossing the 5-bit offset boundary, invalid / too small values, several fields 253, odd types and sizes
		wild := rng.Intn(3) == 0
		if wild {
			count("ts-history=wild")
		} else {
			count("ts-history=calm")
		}
		for f := 0; f < nfiles; f++ {
			file := wFile{size: []int{14, 14, 12, 0, 13}[rng.Intn(5)], protoVer: []int{0x20, 0x20, 0x20, 0x20, 0x20, 0x23, 0x2F, 0, 0x10}[rng.Intn(9)],
				profileVer: []int{0, 0, 2158, 65535}[rng.Intn(4)]}
			if rng.Intn(4) == 0 {
				file.dataSize = uint32(rng.Intn(100))
			}
			nm := 1 + rng.Intn(12)
			if rng.Intn(8) == 0 {
				nm = rng.Intn(41)
			}
			for k := 0; k < nm; k++ {
				s := shapes[rng.Intn(len(shapes))]
				m := wMsg{num: s.num}
				for _, fl := range s.fields {
					nf := fl
					if rng.Intn(2) == 0 && proto.Type(fl.tag) < proto.TypeString { // fresh scalar content, same shape
						nf.data = canonBool(proto.Type(fl.tag), rng.Bytes(len(fl.data)))
					}
					m.fields = append(m.fields, nf)
				}
				m.devs = append(m.devs, s.devs...)
				if s.hasTs {
					m.fields = addTsFields(rng, arch, &ts, wild, m.fields)
				}
				file.msgs = append(file.msgs, m)
			}
			if dev != nil {
				front, back := dev.messages(rng, arch, f, nfiles)
				if dev.kind != "after-use" && rng.Intn(3) == 0 && len(file.msgs) > 0 { // ordinary messages first
					k := rng.Intn(len(file.msgs) + 1)
					file.msgs = append(append(append(append([]wMsg{}, file.msgs[:k]...), front...), file.msgs[k:]...), back...)
				} else {
					file.msgs = append(append(front, file.msgs...), back...)
				}
			}
			toks = append(toks, file.tokens()...)
			count(fmt.Sprintf("msgs<%d", bucket(nm)))
		}
		count(fmt.Sprintf("hopt=%d", hopt))
		count("w=" + wk)
		count(fmt.Sprintf("files=%d", nfiles))
		emit(strings.Join(toks, " "))
	}
}
