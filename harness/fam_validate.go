package main

// Families `validate` (ops validate / validate2 / encgate / streamgate) and `proto-validate`
// (ops pvalidate / pvalidatedef): the real encoder.NewMessageValidator(...).Validate,
// proto.NewValidator(v).ValidateMessage / ValidateMessageDefinition, and the real Encoder / StreamEncoder
// as far as accepting or rejecting goes, against FitModel/Validator.lean.
//
//	validate  o:<p|o> fac:<s|c>/<factable|-> dv:<dvtable|-> <tok>...      tok ::= <message> | reset
//	    o: p = ValidatorWithPreserveInvalidValues, o = default (omit invalid values)
//	    fac: s = standard factory (the table lists what it returns for the pairs the line needs; exec checks it),
//	         c = ValidatorWithFactory(table); factable ::= <mesgnum>.<num>=<n|u>:<bt>:<scale>:<offset>{,…}
//	    dv: results of scaleoffset.DiscardValue the model takes as given (C12's arithmetic):
//	         <value>@<bt>@<scale>@<offset>><value>{,…}
//	    → per message "ok:<message>" | "err:<kind>", blank separated
//	validate2 …same…   every message is validated twice by the same validator → "<first>~<second>"
//	encgate   v:<WithProtocolVersion hex2> h:<FileHeader.ProtocolVersion hex2> o:… fac:… dv:… <message>...   → the real Encoder.Encode: "ok:<m1>,<m2>…" (messages as
//	    left in the caller's slice after validation) | err:<kind> | panic
//	streamgate v:… h:00 o:… fac:… dv:… <message>...  → StreamEncoder.WriteMessage per message: ok:<message> | err:<kind> | panic
//	pvalidate v:<hex2> <message>                  → ok | err:protocol | panic
//	pvalidatedef v:<hex2> dev:<n> bts:<hex>       → ok | err:protocol
//
// err kinds: no-fields type utf8 exceed ddi fd protocol other (classified from the wrapped sentinel; the
// sentinels of package encoder are unexported, so their text is matched).

import (
	"encoding/hex"
	"errors"
	"fmt"
	"io"
	"math"
	"strconv"
	"strings"

	"github.com/muktihari/fit/encoder"
	"github.com/muktihari/fit/kit/scaleoffset"
	"github.com/muktihari/fit/profile/basetype"
	"github.com/muktihari/fit/profile/factory"
	"github.com/muktihari/fit/profile/typedef"
	"github.com/muktihari/fit/proto"
)

func init() {
	families["validate"] = genValidate
	families["proto-validate"] = genProtoValidate
	executors["validate"] = func(a []string) string { return execValidate(a, 1) }
	executors["validate2"] = func(a []string) string { return execValidate(a, 2) }
	executors["encgate"] = execEncGate
	executors["streamgate"] = execStreamGate
	executors["pvalidate"] = execPValidate
	executors["pvalidatedef"] = execPValidateDef
}

func errKind(err error) string {
	if err == nil {
		return "ok"
	}
	if errors.Is(err, proto.ErrProtocolViolation) {
		return "err:protocol"
	}
	s := err.Error()
	for _, k := range [][2]string{{"no fields", "no-fields"}, {"value type mismatch", "type"}, {"invalid UTF-8 string", "utf8"},
		{"exceed max allowed", "exceed"}, {"missing developer data id", "ddi"}, {"missing field description", "fd"}} {
		if strings.HasSuffix(s, k[0]) {
			return "err:" + k[1]
		}
	}
	return "err:other"
}

type facEntry struct {
	known         bool
	bt            byte
	scale, offset float64
}

type tableFactory map[[2]int]facEntry

func (t tableFactory) CreateField(mesgNum typedef.MesgNum, num byte) proto.Field {
	e, ok := t[[2]int{int(mesgNum), int(num)}]
	if !ok {
		return proto.Field{FieldBase: &proto.FieldBase{Name: factory.NameUnknown, Num: num, Scale: 1, Offset: 0}}
	}
	name := factory.NameUnknown
	if e.known {
		name = "known"
	}
	return proto.Field{FieldBase: &proto.FieldBase{Name: name, Num: num, BaseType: basetype.BaseType(e.bt), Scale: e.scale, Offset: e.offset}}
}

func parseFac(s string) (std bool, t tableFactory, ok bool) {
	if len(s) < 3 || s[1] != '/' || (s[0] != 's' && s[0] != 'c') {
		return false, nil, false
	}
	t = tableFactory{}
	if s == "s/=" { // arithmetic-inside mode: the model resolves the standard factory through its regenerated table
		return true, t, true
	}
	if s[2:] != "-" {
		for _, e := range strings.Split(s[2:], ",") {
			kvp := strings.SplitN(e, "=", 2)
			if len(kvp) != 2 {
				return false, nil, false
			}
			ids := strings.Split(kvp[0], ".")
			parts := strings.Split(kvp[1], ":")
			if len(ids) != 2 || len(parts) != 4 || (parts[0] != "n" && parts[0] != "u") {
				return false, nil, false
			}
			mn, err := strconv.ParseUint(ids[0], 10, 16)
			fn, err2 := strconv.ParseUint(ids[1], 10, 8)
			bt, err3 := strconv.ParseUint(parts[1], 16, 8)
			sc, ok2 := parseF64(parts[2], "1", math.Float64bits(1))
			off, ok3 := parseF64(parts[3], "0", 0)
			if err != nil || err2 != nil || err3 != nil || !ok2 || !ok3 {
				return false, nil, false
			}
			t[[2]int{int(mn), int(fn)}] = facEntry{parts[0] == "n", byte(bt), sc, off}
		}
	}
	if s[0] == 's' { // the table must say what the standard factory says
		for k, e := range t {
			f := factory.StandardFactory().CreateField(typedef.MesgNum(k[0]), byte(k[1]))
			if (f.Name != factory.NameUnknown) != e.known || byte(f.BaseType) != e.bt ||
				math.Float64bits(f.Scale) != math.Float64bits(e.scale) || math.Float64bits(f.Offset) != math.Float64bits(e.offset) {
				return false, nil, false
			}
		}
	}
	return s[0] == 's', t, true
}

func printFacEntry(mn, fn int, f *proto.Field) string {
	k := "u"
	if f.Name != factory.NameUnknown {
		k = "n"
	}
	return fmt.Sprintf("%d.%d=%s:%02x:%s:%s", mn, fn, k, byte(f.BaseType), printF64(f.Scale, "1", math.Float64bits(1)), printF64(f.Offset, "0", 0))
}

// validatorFromArgs builds the real validator the line describes.
func validatorFromArgs(args []string) (encoder.MessageValidator, bool) {
	o, ok := kv(args, "o")
	fs, ok2 := kv(args, "fac")
	_, ok3 := kv(args, "dv")
	if !ok || !ok2 || !ok3 || (o != "p" && o != "o") {
		return nil, false
	}
	std, tbl, ok4 := parseFac(fs)
	if !ok4 {
		return nil, false
	}
	var opts []encoder.ValidatorOption
	if o == "p" {
		opts = append(opts, encoder.ValidatorWithPreserveInvalidValues())
	}
	if !std {
		opts = append(opts, encoder.ValidatorWithFactory(tbl))
	}
	return encoder.NewMessageValidator(opts...), true
}

func execValidate(args []string, times int) string {
	if len(args) < 3 {
		return "bad-op"
	}
	mv, ok := validatorFromArgs(args[:3])
	if !ok {
		return "bad-op"
	}
	var out []string
	for _, tok := range args[3:] {
		if tok == "reset" {
			mv.Reset()
			continue
		}
		m, ok := parseMessage(tok)
		if !ok {
			return "bad-op"
		}
		var rs []string
		for k := 0; k < times; k++ {
			if err := mv.Validate(&m); err != nil {
				rs = append(rs, errKind(err))
				break
			}
			rs = append(rs, "ok:"+printMessage(&m))
		}
		out = append(out, strings.Join(rs, "~"))
	}
	return strings.Join(out, " ")
}

type memWriterAt struct{ b []byte }

func (w *memWriterAt) Write(p []byte) (int, error) { w.b = append(w.b, p...); return len(p), nil }
func (w *memWriterAt) WriteAt(p []byte, off int64) (int, error) {
	if int(off)+len(p) > len(w.b) {
		return 0, io.ErrShortWrite
	}
	copy(w.b[off:], p)
	return len(p), nil
}

// gateSeq: one sequence of a gate line (the messages between two separators) and the separator that ends it:
// "seq" (the sequence is completed: next Encode on the same Encoder / StreamEncoder.SequenceCompleted), "reset"
// (Encoder.Reset / StreamEncoder.Reset with the same options, the same validator object included), "" (end of line)
type gateSeq struct {
	msgs []proto.Message
	sep  string
}

func parseGateArgs(args []string) (ver, hdr byte, mv encoder.MessageValidator, seqs []gateSeq, ok bool) {
	if len(args) < 5 {
		return
	}
	ver, ok = kvByte(args[:1], "v")
	if !ok {
		return
	}
	hdr, ok = kvByte(args[1:2], "h")
	if !ok {
		return
	}
	mv, ok = validatorFromArgs(args[2:5])
	if !ok {
		return
	}
	var cur []proto.Message
	for _, tok := range args[5:] {
		if tok == "seq" || tok == "reset" {
			if len(cur) == 0 { // a separator needs a sequence in front of it
				return 0, 0, nil, nil, false
			}
			seqs = append(seqs, gateSeq{cur, tok})
			cur = nil
			continue
		}
		m, ok2 := parseMessage(tok)
		if !ok2 {
			return 0, 0, nil, nil, false
		}
		cur = append(cur, m)
	}
	if len(cur) > 0 {
		seqs = append(seqs, gateSeq{cur, ""})
	}
	return ver, hdr, mv, seqs, len(seqs) > 0
}

func execEncGate(args []string) string {
	ver, hdr, mv, seqs, ok := parseGateArgs(args)
	if !ok {
		return "bad-op"
	}
	w := &memWriterAt{}
	opts := []encoder.Option{encoder.WithProtocolVersion(proto.Version(ver)), encoder.WithMessageValidator(mv)}
	enc := encoder.New(w, opts...)
	// The model judges every Encode as if the encoder were fresh (gateBatch starts from the empty validator
	// state). Two thirds of the lines therefore run on a USED encoder: one earlier Encode of a file that
	// declares developer data ids 0..2 and fields (i, 0..2) and then either succeeds or fails validation half
	// way. Nothing of it may be visible afterwards (seeded change C10-2: validator state surviving a failed Encode).
	h := 0
	for _, a := range args {
		for i := 0; i < len(a); i++ {
			h = (h*31 + int(a[i])) & 0xffffff
		}
	}
	if k := h % 3; k != 0 {
		func() {
			defer func() { recover() }()
			_ = enc.Encode(encgatePoison(k == 2))
		}()
	}
	// one Encode per sequence on the SAME encoder (a chain of FIT files); "reset" = Encoder.Reset with the same options
	var answers []string
	for _, sq := range seqs {
		fit := &proto.FIT{FileHeader: proto.FileHeader{ProtocolVersion: proto.Version(hdr)}, Messages: sq.msgs}
		answers = append(answers, func() (r string) {
			defer func() {
				if recover() != nil {
					r = "panic"
				}
			}()
			if err := enc.Encode(fit); err != nil {
				return errKind(err)
			}
			var out []string
			for i := range fit.Messages {
				out = append(out, printMessage(&fit.Messages[i]))
			}
			return "ok:" + strings.Join(out, ",")
		}())
		if sq.sep == "reset" {
			w = &memWriterAt{}
			enc.Reset(w, opts...)
		}
	}
	return strings.Join(answers, " ")
}

// encgatePoison is the file a used encoder has seen before: developer data ids 0..2, field descriptions
// (i, 0..2) of base type uint8, one record using them; with fail the last message cannot be validated
// (a 300-byte string) so that Encode returns on the error path of validateMessages.
func encgatePoison(fail bool) *proto.FIT {
	fac := factory.StandardFactory()
	mk := func(num typedef.MesgNum, vals map[byte]any) proto.Message {
		m := proto.Message{Num: num}
		for n := 0; n < 256; n++ {
			if v, ok := vals[byte(n)]; ok {
				m.Fields = append(m.Fields, fac.CreateField(num, byte(n)).WithValue(v))
			}
		}
		return m
	}
	fit := &proto.FIT{FileHeader: proto.FileHeader{ProtocolVersion: proto.V2}}
	fit.Messages = append(fit.Messages, mk(typedef.MesgNumFileId, map[byte]any{0: uint8(typedef.FileActivity)}))
	for i := byte(0); i < 3; i++ {
		fit.Messages = append(fit.Messages, mk(typedef.MesgNumDeveloperDataId, map[byte]any{3: i}))
		for j := byte(0); j < 3; j++ {
			fit.Messages = append(fit.Messages, mk(typedef.MesgNumFieldDescription, map[byte]any{
				0: i, 1: j, 2: uint8(basetype.Uint8), 3: []string{"x"}}))
		}
	}
	rec := mk(typedef.MesgNumRecord, map[byte]any{3: uint8(70)})
	rec.DeveloperFields = append(rec.DeveloperFields, proto.DeveloperField{DeveloperDataIndex: 1, Num: 1, Value: proto.Uint8(5)})
	fit.Messages = append(fit.Messages, rec)
	if fail {
		fit.Messages = append(fit.Messages, mk(typedef.MesgNumFileId, map[byte]any{8: strings.Repeat("a", 300)}))
	}
	return fit
}

func execStreamGate(args []string) string {
	ver, hdr, mv, seqs, ok := parseGateArgs(args)
	if !ok || hdr != 0 { // the stream encoder's private file header always starts unspecified
		return "bad-op"
	}
	w := &memWriterAt{}
	opts := []encoder.Option{encoder.WithProtocolVersion(proto.Version(ver)), encoder.WithMessageValidator(mv)}
	se, err := encoder.NewStream(w, opts...)
	if err != nil {
		return "bad-op"
	}
	var out []string
	for _, sq := range seqs {
		msgs := sq.msgs
		for i := range msgs {
			out = append(out, func() (r string) {
				defer func() {
					if recover() != nil {
						r = "panic"
					}
				}()
				if err := se.WriteMessage(&msgs[i]); err != nil {
					return errKind(err)
				}
				return "ok:" + printMessage(&msgs[i])
			}())
		}
		switch sq.sep {
		case "seq": // the sequence is completed; the next WriteMessage starts a new FIT file on the same StreamEncoder
			if err := se.SequenceCompleted(); err != nil {
				out = append(out, "seq:err")
			} else {
				out = append(out, "seq")
			}
		case "reset":
			w = &memWriterAt{}
			if err := se.Reset(w, opts...); err != nil {
				out = append(out, "reset:err")
			} else {
				out = append(out, "reset")
			}
		}
	}
	return strings.Join(out, " ")
}

func execPValidate(args []string) string {
	if len(args) != 2 {
		return "bad-op"
	}
	ver, ok := kvByte(args, "v")
	m, ok2 := parseMessage(args[1])
	if !ok || !ok2 {
		return "bad-op"
	}
	return errKind(proto.NewValidator(proto.Version(ver)).ValidateMessage(&m))
}

func execPValidateDef(args []string) string {
	if len(args) != 3 {
		return "bad-op"
	}
	ver, ok := kvByte(args, "v")
	devs, ok2 := kv(args, "dev")
	btss, ok3 := kv(args, "bts")
	nd, err := strconv.Atoi(devs)
	bts, err2 := hex.DecodeString(btss)
	if !ok || !ok2 || !ok3 || err != nil || err2 != nil || nd < 0 || nd > 300 {
		return "bad-op"
	}
	md := &proto.MessageDefinition{}
	for _, b := range bts {
		md.FieldDefinitions = append(md.FieldDefinitions, proto.FieldDefinition{Num: 1, Size: 1, BaseType: basetype.BaseType(b)})
	}
	for i := 0; i < nd; i++ {
		md.DeveloperFieldDefinitions = append(md.DeveloperFieldDefinitions, proto.DeveloperFieldDefinition{Num: byte(i), Size: 1})
	}
	return errKind(proto.NewValidator(proto.Version(ver)).ValidateMessageDefinition(md))
}

// ---------------------------------------------------------------- generators

const (
	mnFileId    = 0
	mnRecord    = 20
	mnSession   = 18
	mnHr        = 132
	mnFieldDesc = 206
	mnDevDataId = 207
)

func isF64Typed(v proto.Value) bool {
	return v.Type() == proto.TypeFloat64 || v.Type() == proto.TypeSliceFloat64
}

// lineBuilder collects the oracle (dv) and factory tables an operation line needs.
type lineBuilder struct {
	dv  map[string]string
	fac map[[2]int]string
	std bool
	tbl tableFactory
	// what the restoration arithmetic of the line involves (decides whether the line can also run with the arithmetic
	// INSIDE the model: `dv:=`, `fac:s/=`)
	nArith   int  // calls of DiscardValue on float64-typed values
	nanFloat bool // a NaN goes into or comes out of a float32/float64 target: its payload is not modelled (F64: NaN canonical)
	platform bool // a float -> integer conversion of NaN / ±Inf / an out-of-range value (platform-defined in Go; the model reproduces amd64)
}

func vaF64s(v proto.Value) []float64 {
	switch v.Type() {
	case proto.TypeFloat64:
		return []float64{v.Float64()}
	case proto.TypeSliceFloat64:
		return v.SliceFloat64()
	}
	return nil
}

func vaHasNaN(v proto.Value) bool {
	switch v.Type() {
	case proto.TypeFloat64:
		x := v.Float64()
		return x != x
	case proto.TypeSliceFloat64:
		for _, x := range v.SliceFloat64() {
			if x != x {
				return true
			}
		}
	case proto.TypeFloat32:
		x := v.Float32()
		return x != x
	case proto.TypeSliceFloat32:
		for _, x := range v.SliceFloat32() {
			if x != x {
				return true
			}
		}
	}
	return false
}

// vaIntRange: the value range of the integer type DiscardValue converts to for the base type (ok=false: float target,
// or a base type DiscardValue leaves alone)
func vaIntRange(bt basetype.BaseType) (lo, hi float64, ok bool) {
	switch bt {
	case basetype.Sint8:
		return -128, 127, true
	case basetype.Uint8, basetype.Uint8z, basetype.Byte:
		return 0, 255, true
	case basetype.Sint16:
		return -32768, 32767, true
	case basetype.Uint16, basetype.Uint16z:
		return 0, 65535, true
	case basetype.Sint32:
		return -2147483648, 2147483647, true
	case basetype.Uint32, basetype.Uint32z:
		return 0, 4294967295, true
	case basetype.Sint64:
		return -9223372036854775808, 9223372036854774784, true // largest float64 below 2^63
	case basetype.Uint64, basetype.Uint64z:
		return 0, 18446744073709549568, true // largest float64 below 2^64
	}
	return 0, 0, false
}

func (lb *lineBuilder) inspect(v, r proto.Value, bt basetype.BaseType, scale, offset float64) {
	lb.nArith++
	if bt == basetype.Float32 || bt == basetype.Float64 {
		if vaHasNaN(v) || vaHasNaN(r) {
			lb.nanFloat = true
		}
		return
	}
	lo, hi, ok := vaIntRange(bt)
	if !ok {
		return
	}
	for _, x := range vaF64s(v) {
		dv := x
		if !(scale == 1 && offset == 0) {
			dv = (x + offset) * scale
		}
		q := math.Round(dv)
		if q != q || q < lo || q > hi {
			lb.platform = true
		}
	}
}

func newLine(std bool) *lineBuilder {
	return &lineBuilder{dv: map[string]string{}, fac: map[[2]int]string{}, std: std, tbl: tableFactory{}}
}

// oracle records DiscardValue(v, bt, scale, offset) and, because a validated message may be validated
// again, the same for its results while they stay float64-typed.
func (lb *lineBuilder) oracle(v proto.Value, bt basetype.BaseType, scale, offset float64) {
	for k := 0; k < 3 && isF64Typed(v); k++ {
		key := fmt.Sprintf("%s@%02x@%016x@%016x", printValue(v), byte(bt), math.Float64bits(scale), math.Float64bits(offset))
		r := scaleoffset.DiscardValue(v, bt, scale, offset)
		lb.dv[key] = printValue(r)
		lb.inspect(v, r, bt, scale, offset)
		v = r
	}
}

func (lb *lineBuilder) factoryField(mn typedef.MesgNum, fn byte) proto.Field {
	var f proto.Field
	if lb.std {
		f = factory.StandardFactory().CreateField(mn, fn)
	} else {
		f = lb.tbl.CreateField(mn, fn)
	}
	lb.fac[[2]int{int(mn), int(fn)}] = printFacEntry(int(mn), int(fn), &f)
	return f
}

// fdView mirrors what Validate reads from a field_description message (only to know which oracle entries are needed).
type fdView struct {
	ddi, fdn, bt, scale uint8
	offset              int8
	nmn                 uint16
	nfn                 uint8
}

func (lb *lineBuilder) scan(msgs []proto.Message) {
	var fds []fdView
	for mi := range msgs {
		m := &msgs[mi]
		if isResetTok(m) || isSeqTok(m) { // a new sequence starts from a fresh validator
			fds = nil
			continue
		}
		for i := range m.Fields {
			f := &m.Fields[i]
			if f.FieldBase != nil && (f.Scale != 1 || f.Offset != 0) {
				lb.oracle(f.Value, f.BaseType, f.Scale, f.Offset)
			}
		}
		if m.Num == mnFieldDesc {
			var vals [16]proto.Value
			for i := range m.Fields {
				f := &m.Fields[i]
				if f.FieldBase != nil && f.Num <= 15 && f.Name != factory.NameUnknown {
					v := f.Value
					if f.Scale != 1 || f.Offset != 0 {
						v = scaleoffset.DiscardValue(v, f.BaseType, f.Scale, f.Offset)
					}
					vals[f.Num] = v
				}
			}
			fds = append(fds, fdView{vals[0].Uint8(), vals[1].Uint8(), vals[2].Uint8(), vals[6].Uint8(), vals[7].Int8(), vals[14].Uint16(), vals[15].Uint8()})
		}
		for i := range m.DeveloperFields {
			d := &m.DeveloperFields[i]
			for _, fd := range fds {
				if fd.ddi != d.DeveloperDataIndex || fd.fdn != d.Num {
					continue
				}
				if fd.nmn != 0xffff && fd.nfn != 0xff {
					nf := lb.factoryField(typedef.MesgNum(fd.nmn), fd.nfn)
					if nf.Name != factory.NameUnknown && (nf.Scale != 1 || nf.Offset != 0) {
						lb.oracle(d.Value, nf.BaseType, nf.Scale, nf.Offset)
					}
				} else if fd.scale != 0xff && fd.offset != 0x7f {
					lb.oracle(d.Value, basetype.BaseType(fd.bt), float64(fd.scale), float64(fd.offset))
				}
			}
		}
	}
}

func sortedVals(m map[string]string, sep string) string {
	if len(m) == 0 {
		return "-"
	}
	keys := make([]string, 0, len(m))
	for k := range m {
		keys = append(keys, k)
	}
	sortStrings(keys)
	var parts []string
	for _, k := range keys {
		parts = append(parts, k+sep+m[k])
	}
	return strings.Join(parts, ",")
}

func sortStrings(a []string) {
	for i := 1; i < len(a); i++ {
		for j := i; j > 0 && a[j] < a[j-1]; j-- {
			a[j], a[j-1] = a[j-1], a[j]
		}
	}
}

// header renders "o:… fac:… dv:…" for the messages of a line (call after all messages are built).
func (lb *lineBuilder) header(preserve bool, msgs []proto.Message) string {
	lb.scan(msgs)
	o := "o"
	if preserve {
		o = "p"
	}
	facs := map[string]string{}
	for k, v := range lb.fac {
		facs[fmt.Sprintf("%05d.%03d", k[0], k[1])] = v
	}
	fs := "-"
	if len(facs) > 0 {
		keys := make([]string, 0, len(facs))
		for k := range facs {
			keys = append(keys, k)
		}
		sortStrings(keys)
		var parts []string
		for _, k := range keys {
			parts = append(parts, facs[k])
		}
		fs = strings.Join(parts, ",")
	}
	mode := "c"
	if lb.std {
		mode = "s"
	}
	return fmt.Sprintf("o:%s fac:%s/%s dv:%s", o, mode, fs, sortedVals(lb.dv, ">"))
}

// headerInside renders the header of the same line with the arithmetic and the standard factory's look-ups INSIDE the
// model: nothing the real code computed is carried (call after header). A custom factory is an input (an option of the
// validator), so its table stays. ok=false: the line restores a NaN into a float base type (payload not modelled).
func (lb *lineBuilder) headerInside(preserve bool, oldHeader string) (string, bool) {
	if lb.nanFloat {
		return "", false
	}
	o := "o"
	if preserve {
		o = "p"
	}
	fac := "s/="
	if !lb.std {
		// "o:x fac:c/<table> dv:…" → the table as the old header printed it (every entry of the custom factory)
		parts := strings.SplitN(oldHeader, " ", 3)
		fac = strings.TrimPrefix(parts[1], "fac:")
	}
	return fmt.Sprintf("o:%s fac:%s dv:=", o, fac), true
}

func mkField(num byte, bt basetype.BaseType, v proto.Value) proto.Field {
	return proto.Field{FieldBase: &proto.FieldBase{Name: "known", Num: num, BaseType: bt, Scale: 1, Offset: 0}, Value: v}
}

func realField(mn typedef.MesgNum, fn byte, v proto.Value) proto.Field {
	f := factory.StandardFactory().CreateField(mn, fn)
	f.Value = v
	return f
}

func mustValue(s string) proto.Value {
	v, ok := parseValue(s)
	if !ok {
		panic("generator: bad value " + s)
	}
	return v
}

// sample values per type: a valid one, the invalid sentinel(s), arrays
var typeSamples = []string{"inv:", "bool:01", "bool:ff", "i8:05", "i8:7f", "u8:05", "u8:ff", "u8:00", "i16:0500", "i16:ff7f", "u16:0500", "u16:ffff", "u16:0000",
	"i32:05000000", "i32:ffffff7f", "u32:05000000", "u32:ffffffff", "u32:00000000", "i64:0500000000000000", "i64:ffffffffffffff7f",
	"u64:0500000000000000", "u64:ffffffffffffffff", "u64:0000000000000000", "f32:0000a040", "f32:ffffffff", "f64:0000000000001440", "f64:ffffffffffffffff",
	"str:6162", "str:", "str:00", "bools:0100", "bools:ffff", "i8s:0102", "i8s:7f7f", "u8s:0102", "u8s:ffff", "u8s:0000", "u8s:", "i16s:01000200", "i16s:ff7fff7f",
	"u16s:01000200", "u16s:ffffffff", "u16s:00000000", "i32s:0100000002000000", "i32s:ffffff7f", "u32s:0100000002000000", "u32s:ffffffff", "u32s:00000000",
	"i64s:0100000000000000", "i64s:ffffffffffffff7f", "u64s:0100000000000000", "u64s:ffffffffffffffff", "u64s:0000000000000000",
	"f32s:0000a0400000c040", "f32s:ffffffff", "f64s:0000000000001440", "f64s:ffffffffffffffff", "strs:6162,63,", "strs:", "strs:,", "strs:00,", "strs:,61,"}

func randValueFor(rng *Rng, bt byte) proto.Value {
	// a value of the type that aligns with bt (mostly), valid or invalid
	tags := map[byte][]string{0x00: {"u8", "bool"}, 0x01: {"i8"}, 0x02: {"u8"}, 0x83: {"i16"}, 0x84: {"u16"}, 0x85: {"i32"}, 0x86: {"u32"}, 0x07: {"str"},
		0x88: {"f32"}, 0x89: {"f64"}, 0x0a: {"u8"}, 0x8b: {"u16"}, 0x8c: {"u32"}, 0x0d: {"u8"}, 0x8e: {"i64"}, 0x8f: {"u64"}, 0x90: {"u64"}}
	tl, ok := tags[bt]
	if !ok || rng.Intn(12) == 0 {
		return mustValue(typeSamples[rng.Intn(len(typeSamples))])
	}
	tag := tl[rng.Intn(len(tl))]
	arr := rng.Intn(4) == 0
	if tag == "str" {
		if arr {
			n := rng.Intn(4)
			ss := make([]string, n)
			for i := range ss {
				if rng.Intn(3) != 0 {
					ss[i] = randString(rng)
				}
			}
			return proto.SliceString(ss)
		}
		return proto.String(randString(rng))
	}
	w := scalarWidth[tag]
	if arr {
		return mustValue(tag + "s:" + randElems(rng, w, rng.Intn(5)))
	}
	return mustValue(tag + ":" + leHex(interestingU64(rng, w), w))
}

func randField(rng *Rng, num byte) proto.Field {
	bt := allBaseTypes[rng.Intn(len(allBaseTypes))]
	if rng.Intn(20) == 0 {
		bt = byte(rng.Intn(256))
	}
	f := mkField(num, basetype.BaseType(bt), randValueFor(rng, bt))
	switch rng.Intn(14) {
	case 0:
		f.IsExpandedField = true
	case 1:
		f.FieldBase = nil
	case 2:
		f.Name = factory.NameUnknown
	case 3:
		f.Scale, f.Offset = []float64{2, 5, 100, 1000, 0.5, 1.0 / 3}[rng.Intn(6)], []float64{0, 500, -110, 0.25}[rng.Intn(4)]
		if rng.Bool() && f.FieldBase != nil {
			if rng.Bool() {
				f.Value = proto.Float64([]float64{0, 1, 1.5, 12.34, -3, 65535, 1e10, 0.29}[rng.Intn(8)])
			} else {
				f.Value = proto.SliceFloat64([]float64{1.5, 2.5, 100})
			}
		}
	case 4:
		f.Offset = math.Copysign(0, -1) // -0 == 0: no restoring
	case 5:
		f.Array, f.Accumulate = true, rng.Bool()
	}
	return f
}

// devDataId / fieldDesc build the two messages developer fields depend on, with the real FieldBases of the profile.
func devDataIdMesg(idx uint8) proto.Message {
	return proto.Message{Num: mnDevDataId, Fields: []proto.Field{
		realField(mnDevDataId, 3, proto.Uint8(idx)), realField(mnDevDataId, 1, proto.SliceUint8([]byte{1, 2, 3, 4}))}}
}

type fdSpec struct {
	ddi, fdn, bt  uint8
	scale         int // -1: absent
	offset        int // 1000: absent
	nmn           int // -1: absent
	nfn           int // -1: absent
	unknownNames  bool
	duplicateNums bool
}

func fieldDescMesg(s fdSpec) proto.Message {
	m := proto.Message{Num: mnFieldDesc}
	add := func(n byte, v proto.Value) {
		f := realField(mnFieldDesc, n, v)
		if s.unknownNames {
			fb := *f.FieldBase
			fb.Name = factory.NameUnknown
			f.FieldBase = &fb
		}
		m.Fields = append(m.Fields, f)
	}
	if s.duplicateNums {
		add(1, proto.Uint8(s.fdn+1)) // overwritten by the later field 1 (vals[num] keeps the last)
	}
	add(0, proto.Uint8(s.ddi))
	add(1, proto.Uint8(s.fdn))
	add(2, proto.Uint8(s.bt))
	add(3, proto.SliceString([]string{"dev"}))
	if s.scale >= 0 {
		add(6, proto.Uint8(uint8(s.scale)))
	}
	if s.offset != 1000 {
		add(7, proto.Int8(int8(s.offset)))
	}
	if s.nmn >= 0 {
		add(14, proto.Uint16(uint16(s.nmn)))
	}
	if s.nfn >= 0 {
		add(15, proto.Uint8(uint8(s.nfn)))
	}
	return m
}

// a pseudo message standing for a Reset() of the validator between two messages of a sequence
func isResetTok(m *proto.Message) bool {
	return m.Num == 0xffff && m.Fields == nil && m.DeveloperFields == nil
}

// a pseudo message standing for the end of a sequence in a gate line ("seq": next Encode / SequenceCompleted)
func isSeqTok(m *proto.Message) bool {
	return m.Num == 0xfffe && m.Fields == nil && m.DeveloperFields == nil
}

func cloneMsgs(msgs []proto.Message) []proto.Message {
	out := make([]proto.Message, len(msgs))
	for i := range msgs {
		out[i] = msgs[i]
		out[i].Fields = append([]proto.Field(nil), msgs[i].Fields...)
		out[i].DeveloperFields = append([]proto.DeveloperField(nil), msgs[i].DeveloperFields...)
	}
	return out
}

func printMsgs(msgs []proto.Message) string {
	parts := make([]string, len(msgs))
	for i := range msgs {
		if isResetTok(&msgs[i]) {
			parts[i] = "reset"
			continue
		}
		if isSeqTok(&msgs[i]) {
			parts[i] = "seq"
			continue
		}
		parts[i] = printMessage(&msgs[i])
	}
	return strings.Join(parts, " ")
}

func genValidate(emit func(string), tier string, rng *Rng) {
	thorough := tier == "thorough"
	insideOnly := false
	// emitSeq emits one line for a message sequence under the given op and option
	emitSeq := func(op string, preserve, std bool, custom tableFactory, msgs []proto.Message, extra string) {
		lb := newLine(std)
		if custom != nil {
			lb.tbl = custom
			for k := range custom {
				lb.factoryField(typedef.MesgNum(k[0]), byte(k[1]))
			}
		}
		h := lb.header(preserve, msgs)
		if !insideOnly {
			emit(op + " " + extra + h + " " + printMsgs(msgs))
		}
		// the same line with the arithmetic / the standard factory's look-ups inside the model, whenever it has any
		if lb.nArith > 0 || len(lb.fac) > 0 || insideOnly {
			if hi, ok := lb.headerInside(preserve, h); ok {
				emit(op + " " + extra + hi + " " + printMsgs(msgs))
				count("arith-inside")
				if lb.platform {
					count("arith-inside-platform-defined")
				}
			} else {
				if insideOnly { // keep the line: the real results are carried as before
					emit(op + " " + extra + h + " " + printMsgs(msgs))
				}
				count("arith-outside-nan-payload")
			}
		}
	}
	both := func(msgs []proto.Message) {
		for _, p := range []bool{false, true} {
			emitSeq("validate2", p, true, nil, msgs, "")
		}
	}
	one := func(fs ...proto.Field) []proto.Message { return []proto.Message{{Num: mnRecord, Fields: fs}} }

	// --- a. number of fields 0..300 × keep patterns (the 255 cap and the in-place compaction)
	good := func(i int) proto.Field { return mkField(byte(i), basetype.Uint8, proto.Uint8(byte(i%200))) }
	badKinds := []func(i int) proto.Field{
		func(i int) proto.Field { return mkField(byte(i), basetype.Uint8, proto.Uint8(0xff)) },                              // invalid value
		func(i int) proto.Field { f := good(i); f.IsExpandedField = true; return f },                                         // expanded
		func(i int) proto.Field { return proto.Field{Value: proto.Uint8(1)} },                                                // nil FieldBase
		func(i int) proto.Field { return mkField(byte(i), basetype.Uint16z, proto.SliceUint16([]uint16{0, 0})) },             // invalid array
	}
	patterns := []func(i, n int) bool{
		func(i, n int) bool { return true }, func(i, n int) bool { return false }, func(i, n int) bool { return i%2 == 0 },
		func(i, n int) bool { return i%2 == 1 }, func(i, n int) bool { return (i/7)%2 == 0 }, func(i, n int) bool { return i == 0 || i == n-1 },
		func(i, n int) bool { return i != 0 && i != n-1 }, func(i, n int) bool { return i >= n/2 },
	}
	for n := 0; n <= 300; n++ {
		for pi, pat := range patterns {
			if !thorough && pi >= 2 && n%5 != 0 && (n < 250 || n > 262) {
				continue
			}
			fs := make([]proto.Field, n)
			for i := range fs {
				if pat(i, n) {
					fs[i] = good(i)
				} else {
					fs[i] = badKinds[(i+pi)%len(badKinds)](i)
				}
			}
			emitSeq("validate", (n+pi)%3 == 0, true, nil, one(fs...), "")
			count("field-count")
		}
	}
	// kept-field counts around the cap with mixed removals, both options, validated twice
	for _, kept := range []int{253, 254, 255, 256, 257} {
		for _, extra := range []int{0, 1, 40} {
			var fs []proto.Field
			for i := 0; i < kept; i++ {
				fs = append(fs, good(i))
				if i < extra {
					fs = append(fs, badKinds[i%4](i))
				}
			}
			both(one(fs...))
		}
	}
	// --- b. every value sample against every base type (+ invalid base-type bytes), both options, twice
	for _, vs := range typeSamples {
		for _, bt := range append(append([]byte{}, allBaseTypes...), 0x03, 0x20, 0x8d, 0xff) {
			both(one(mkField(1, basetype.BaseType(bt), mustValue(vs))))
			count("type-x-basetype")
		}
	}
	// --- c. sizes 250..260 bytes
	for n := 250; n <= 260; n++ {
		s := strings.Repeat("a", n)
		both(one(mkField(1, basetype.String, proto.String(s))))
		both(one(mkField(1, basetype.String, proto.String(s[:n-1]+"\x00"))))
		both(one(mkField(1, basetype.String, proto.SliceString([]string{s[:n/2], s[n/2:]}))))
		// empty elements next to non-empty ones: each still costs its terminator (seeded change C10-3)
		both(one(mkField(1, basetype.String, proto.SliceString([]string{"", s[:n-4]}))))
		both(one(mkField(1, basetype.String, proto.SliceString([]string{s[:n-5], "", "b"}))))
		both(one(mkField(1, basetype.String, proto.SliceString([]string{"", "", s[:n-6], ""}))))
		both(one(mkField(1, basetype.Byte, proto.SliceUint8(make([]byte, n)))))
		both(one(mkField(1, basetype.Uint8, proto.SliceUint8([]byte(s)))))
		if n%2 == 0 {
			both(one(mkField(1, basetype.Uint16, proto.SliceUint16(make([]uint16, n/2)))))
		}
		if n%4 == 0 {
			both(one(mkField(1, basetype.Float32, proto.SliceFloat32(make([]float32, n/4)))))
		}
		if n%8 == 0 {
			both(one(mkField(1, basetype.Uint64, proto.SliceUint64(make([]uint64, n/8)))))
		}
		count("size-boundary")
	}
	// --- e. strings: malformed UTF-8, NULs, U+FFFD
	for _, s := range stringCorpus {
		both(one(mkField(1, basetype.String, proto.String(s))))
		both(one(mkField(1, basetype.String, proto.SliceString([]string{"ok", s}))))
		count("string")
	}
	// --- f. scaled fields of the real profile (record.altitude scale 5 offset 500, speed scale 1000, hr.event_timestamp array scale 1024)
	for _, x := range []float64{0, 1.5, 12.34, 0.29, -500, -500.2, 12607, 12607.1, 1e9, math.Inf(1), math.NaN(), 65.535} {
		both(one(realField(mnRecord, 2, proto.Float64(x)), realField(mnRecord, 6, proto.Float64(x)), realField(mnRecord, 3, proto.Uint8(70))))
		both(one(realField(mnRecord, 2, proto.Uint16(uint16(int64(x)&0xffff)))))
		both([]proto.Message{{Num: mnHr, Fields: []proto.Field{realField(mnHr, 9, proto.SliceFloat64([]float64{x, 1, 2.5}))}}})
		both(one(func() proto.Field { f := mkField(9, basetype.Float64, proto.Float64(x)); f.Scale = 2; return f }()))
		both(one(func() proto.Field { f := mkField(9, basetype.Float32, proto.Float64(x)); f.Scale, f.Offset = 2, 1; return f }()))
		both(one(func() proto.Field { f := mkField(9, basetype.Float64, proto.SliceFloat64([]float64{x, 3})); f.Offset = 0.5; return f }()))
		both(one(func() proto.Field { f := mkField(9, basetype.String, proto.Float64(x)); f.Scale = 2; return f }()))
		count("scaled")
	}
	// --- g. developer fields
	resetTok := proto.Message{Num: 0xffff, Fields: nil, DeveloperFields: nil} // printed as "reset" (see printMsgs)
	devSeq := func(preserve, std bool, custom tableFactory, op string, msgs ...proto.Message) {
		emitSeq(op, preserve, std, custom, msgs, "")
		count("developer")
	}
	dval := func(idx, num uint8, v proto.Value) proto.DeveloperField {
		return proto.DeveloperField{DeveloperDataIndex: idx, Num: num, Value: v}
	}
	rec := func(devs ...proto.DeveloperField) proto.Message {
		return proto.Message{Num: mnRecord, Fields: []proto.Field{realField(mnRecord, 3, proto.Uint8(70))}, DeveloperFields: devs}
	}
	onlyDev := func(devs ...proto.DeveloperField) proto.Message {
		return proto.Message{Num: mnRecord, DeveloperFields: devs}
	}
	plainFd := fdSpec{ddi: 0, fdn: 1, bt: 0x02, scale: -1, offset: 1000, nmn: -1, nfn: -1}
	ddi0, fd0 := devDataIdMesg(0), fieldDescMesg(plainFd)
	for _, p := range []bool{false, true} {
		devSeq(p, true, nil, "validate2", ddi0, fd0, rec(dval(0, 1, proto.Uint8(5))))
		devSeq(p, true, nil, "validate", rec(dval(0, 1, proto.Uint8(5))))                   // nothing seen
		devSeq(p, true, nil, "validate", ddi0, rec(dval(0, 1, proto.Uint8(5))))             // no description
		devSeq(p, true, nil, "validate", fd0, rec(dval(0, 1, proto.Uint8(5))))              // no developer data id
		devSeq(p, true, nil, "validate", devDataIdMesg(1), fd0, rec(dval(0, 1, proto.Uint8(5)))) // other index
		devSeq(p, true, nil, "validate", ddi0, fd0, rec(dval(0, 2, proto.Uint8(5))))        // other number
		devSeq(p, true, nil, "validate", ddi0, fd0, rec(dval(0, 1, proto.Uint8(0xff)), dval(0, 1, proto.Uint8(6))))
		devSeq(p, true, nil, "validate", ddi0, fd0, rec(dval(0, 1, proto.Uint16(5))))       // type mismatch
		devSeq(p, true, nil, "validate", ddi0, fd0, rec(dval(0, 1, proto.SliceUint8(make([]byte, 256)))))
		devSeq(p, true, nil, "validate", ddi0, fd0, rec(dval(0, 1, proto.SliceUint8(make([]byte, 255)))))
		devSeq(p, true, nil, "validate", ddi0, fd0, onlyDev(dval(0, 1, proto.Uint8(5))))
		devSeq(p, true, nil, "validate2", ddi0, fd0, onlyDev(dval(0, 1, proto.Uint8(0xff)))) // all developer fields dropped
		devSeq(p, true, nil, "validate2", ddi0, fd0, proto.Message{Num: mnRecord, Fields: []proto.Field{mkField(1, basetype.Uint8, proto.Uint8(0xff))},
			DeveloperFields: []proto.DeveloperField{dval(0, 1, proto.Uint8(0xff)), dval(0, 1, proto.SliceUint8([]byte{0xff, 0xff}))}})
		devSeq(p, true, nil, "validate", ddi0, fd0, resetTok, rec(dval(0, 1, proto.Uint8(5))))
		devSeq(p, true, nil, "validate", ddi0, resetTok, ddi0, fd0, rec(dval(0, 1, proto.Uint8(5))))
		// the developer-data-id message without an index field / with an invalid one registers index 255
		devSeq(p, true, nil, "validate", proto.Message{Num: mnDevDataId, Fields: []proto.Field{realField(mnDevDataId, 1, proto.SliceUint8([]byte{1}))}},
			fieldDescMesg(fdSpec{ddi: 255, fdn: 1, bt: 2, scale: -1, offset: 1000, nmn: -1, nfn: -1}), rec(dval(255, 1, proto.Uint8(5))))
		// descriptions whose members are read from fields with unknown names / duplicate numbers
		for _, spec := range []fdSpec{
			{ddi: 0, fdn: 1, bt: 2, scale: -1, offset: 1000, nmn: -1, nfn: -1, unknownNames: true},
			{ddi: 0, fdn: 1, bt: 2, scale: -1, offset: 1000, nmn: -1, nfn: -1, duplicateNums: true},
		} {
			devSeq(p, true, nil, "validate", ddi0, fieldDescMesg(spec), rec(dval(0, 1, proto.Uint8(5)), dval(0, 2, proto.Uint8(5))))
		}
		// two descriptions for the same key: the first one wins
		devSeq(p, true, nil, "validate", ddi0, fieldDescMesg(fdSpec{ddi: 0, fdn: 1, bt: 0x84, scale: -1, offset: 1000, nmn: -1, nfn: -1}), fd0,
			rec(dval(0, 1, proto.Uint16(5))), rec(dval(0, 1, proto.Uint8(5))))
		// every base type id (valid or not) in the description × matching / non-matching value
		for bt := 0; bt < 256; bt++ {
			if !thorough && !basetype.BaseType(bt).Valid() && bt%16 != 3 {
				continue
			}
			spec := fdSpec{ddi: 0, fdn: 1, bt: uint8(bt), scale: -1, offset: 1000, nmn: -1, nfn: -1}
			devSeq(p, true, nil, "validate", ddi0, fieldDescMesg(spec), rec(dval(0, 1, randValueFor(rng, byte(bt)))), rec(dval(0, 1, proto.Uint8(5))))
		}
		// scale / offset of the description (uint8, int8), applied to float64 values; invalid markers 255 / 127
		for _, sc := range []int{-1, 0, 1, 2, 10, 100, 254, 255} {
			for _, off := range []int{1000, 0, 1, -1, 100, -128, 126, 127} {
				for _, bt := range []uint8{0x84, 0x02, 0x89, 0x88, 0x01} {
					spec := fdSpec{ddi: 0, fdn: 1, bt: bt, scale: sc, offset: off, nmn: -1, nfn: -1}
					devSeq(p, true, nil, "validate2", ddi0, fieldDescMesg(spec), rec(dval(0, 1, proto.Float64(12.5)), dval(0, 1, proto.SliceFloat64([]float64{1.5, 300}))),
						rec(dval(0, 1, randValueFor(rng, bt))))
				}
			}
		}
		// native field overrides: record.altitude (scale 5, offset 500), record.heart_rate (scale 1), unknown natives, half-specified natives
		for _, nat := range [][2]int{{20, 2}, {20, 3}, {20, 200}, {9999, 1}, {20, -1}, {-1, 2}, {0xffff, 2}, {20, 0xff}, {18, 9}} {
			for _, std := range []bool{true, false} {
				spec := fdSpec{ddi: 0, fdn: 1, bt: 0x84, scale: 10, offset: 3, nmn: nat[0], nfn: nat[1]}
				var custom tableFactory
				if !std {
					custom = tableFactory{{20, 2}: {true, 0x84, 7, 2}, {20, 3}: {false, 0x84, 9, 9}, {20, 200}: {false, 0x02, 3, 0},
						{9999, 1}: {true, 0x86, 1, math.Copysign(0, -1)}, {18, 9}: {true, 0x89, 2, 0}}
				}
				devSeq(p, std, custom, "validate2", ddi0, fieldDescMesg(spec), rec(dval(0, 1, proto.Float64(12.5))), rec(dval(0, 1, proto.Uint16(7))))
			}
		}
	}
	// nothing survives: no kept field and every developer field dropped (KF-C10-3, repaired: errNoFields after the
	// developer-field loop). One and two validations, both gates; the validator state stays updated on that error
	// path (a developer-data-id / field-description message that ends up empty has been registered already).
	for _, p := range []bool{false, true} {
		bad, nilF, inv := dval(0, 1, proto.Uint8(0xff)), proto.Field{Value: proto.Uint8(1)}, mkField(1, basetype.Uint8, proto.Uint8(0xff))
		exp := good(2)
		exp.IsExpandedField = true
		for _, m := range []proto.Message{onlyDev(bad), onlyDev(bad, bad, bad), onlyDev(bad, dval(0, 1, proto.Uint8(7))),
			{Num: mnRecord, Fields: []proto.Field{nilF, exp}, DeveloperFields: []proto.DeveloperField{bad}},
			{Num: mnRecord, Fields: []proto.Field{inv, nilF}, DeveloperFields: []proto.DeveloperField{bad, bad}},
			{Num: mnRecord, Fields: []proto.Field{inv, good(3)}, DeveloperFields: []proto.DeveloperField{bad}}} {
			for _, op := range []string{"validate", "validate2"} {
				devSeq(p, true, nil, op, ddi0, fd0, m, rec(dval(0, 1, proto.Uint8(5))))
			}
			for _, op := range []string{"encgate", "streamgate"} {
				emitSeq(op, p, true, nil, []proto.Message{ddi0, fd0, m, rec(dval(0, 1, proto.Uint8(5)))}, "v:20 h:00 ")
				count("developer")
			}
		}
		fd255 := fieldDescMesg(fdSpec{ddi: 255, fdn: 1, bt: 2, scale: -1, offset: 1000, nmn: -1, nfn: -1})
		devSeq(p, true, nil, "validate", ddi0, fd0, proto.Message{Num: mnDevDataId, DeveloperFields: []proto.DeveloperField{bad}},
			fd255, rec(dval(255, 1, proto.Uint8(5))))
		devSeq(p, true, nil, "validate", ddi0, fd0, proto.Message{Num: mnDevDataId, Fields: []proto.Field{nilF}, DeveloperFields: []proto.DeveloperField{bad}},
			fd255, rec(dval(255, 1, proto.Uint8(5))))
		devSeq(p, true, nil, "validate", ddi0, fd0, fd255, rec(dval(255, 1, proto.Uint8(5)))) // … and 255 is not registered otherwise
		devSeq(p, true, nil, "validate", ddi0, fd0, proto.Message{Num: mnFieldDesc, DeveloperFields: []proto.DeveloperField{bad}},
			proto.Message{Num: mnDevDataId, DeveloperFields: []proto.DeveloperField{bad}}, rec(dval(255, 255, proto.Uint8(5))), rec(dval(255, 255, proto.Uint8(0xff))))
	}
	for it := 0; it < 300; it++ {
		msgs := []proto.Message{ddi0, fd0}
		for k := 1 + rng.Intn(3); k > 0; k-- {
			m := proto.Message{Num: mnRecord}
			for i := rng.Intn(3); i > 0; i-- {
				m.Fields = append(m.Fields, badKinds[rng.Intn(len(badKinds))](i))
			}
			if rng.Intn(4) == 0 {
				m.Fields = append(m.Fields, good(5))
			}
			for i := rng.Intn(4); i > 0; i-- {
				v := proto.Uint8(0xff)
				if rng.Intn(4) == 0 {
					v = proto.Uint8(byte(rng.Intn(255)))
				}
				m.DeveloperFields = append(m.DeveloperFields, dval(0, 1, v))
			}
			msgs = append(msgs, m)
		}
		switch it % 4 {
		case 0, 1:
			devSeq(rng.Bool(), true, nil, []string{"validate", "validate2"}[it%2], msgs...)
		default:
			emitSeq([]string{"encgate", "streamgate"}[it%2], rng.Bool(), true, nil, msgs, "v:20 h:00 ")
			count("developer")
		}
	}
	// number of developer fields 0..300 × keep patterns
	for n := 0; n <= 300; n++ {
		if !thorough && n%10 != 0 && (n < 250 || n > 262) {
			continue
		}
		for pi, pat := range patterns[:4] {
			ds := make([]proto.DeveloperField, n)
			for i := range ds {
				if pat(i, n) {
					ds[i] = dval(0, 1, proto.Uint8(byte(i%200)))
				} else {
					ds[i] = dval(0, 1, proto.Uint8(0xff))
				}
			}
			devSeq((n+pi)%2 == 0, true, nil, "validate", ddi0, fd0, rec(ds...))
		}
	}
	// --- h. random mixtures: sequences of messages with random fields, developer fields, resets
	nr := 12000
	if thorough {
		nr = 200000
	}
	for it := 0; it < nr; it++ {
		var msgs []proto.Message
		nm := 1 + rng.Intn(5)
		for k := 0; k < nm; k++ {
			switch rng.Intn(8) {
			case 0:
				msgs = append(msgs, devDataIdMesg(uint8(rng.Intn(3))))
				continue
			case 1:
				msgs = append(msgs, fieldDescMesg(fdSpec{ddi: uint8(rng.Intn(3)), fdn: uint8(rng.Intn(3)), bt: allBaseTypes[rng.Intn(len(allBaseTypes))],
					scale: []int{-1, -1, 2, 255}[rng.Intn(4)], offset: []int{1000, 1000, 1, 127}[rng.Intn(4)], nmn: []int{-1, -1, 20, 0xffff}[rng.Intn(4)], nfn: []int{-1, -1, 2, 3}[rng.Intn(4)]}))
				continue
			case 2:
				if rng.Intn(4) == 0 {
					msgs = append(msgs, resetTok)
					continue
				}
			}
			m := proto.Message{Num: []typedef.MesgNum{mnRecord, mnFileId, mnSession, 0xff00, mnDevDataId, mnFieldDesc}[rng.Intn(6)]}
			nf := rng.Intn(6)
			if rng.Intn(30) == 0 {
				nf = 250 + rng.Intn(12)
			}
			for i := 0; i < nf; i++ {
				num := byte(rng.Intn(16))
				if rng.Bool() {
					num = byte(i)
				}
				m.Fields = append(m.Fields, randField(rng, num))
			}
			for i := rng.Intn(4) - 1; i > 0; i-- {
				vs := []proto.Value{proto.Uint8(5), proto.Uint8(0xff), proto.Float64(2.5), proto.Uint16(9), proto.String("dev"), proto.SliceUint8([]byte{1, 0xff})}
				m.DeveloperFields = append(m.DeveloperFields, dval(uint8(rng.Intn(3)), uint8(rng.Intn(3)), vs[rng.Intn(len(vs))]))
			}
			msgs = append(msgs, m)
		}
		op := []string{"validate", "validate2"}[rng.Intn(2)]
		emitSeq(op, rng.Bool(), true, nil, msgs, "")
		count("random")
		// the same sequence through the real Encoder / StreamEncoder gate, under a protocol version
		if it%3 == 0 {
			var ms []proto.Message
			for _, m := range msgs {
				if m.Num != 0xffff {
					ms = append(ms, m)
				}
			}
			if len(ms) > 0 {
				v := []byte{0x10, 0x20, 0x10, 0x20, 0x11, 0x00, 0x30}[rng.Intn(7)]
				gop, h := "streamgate", byte(0)
				if rng.Bool() {
					gop, h = "encgate", []byte{0x00, 0x10, 0x20, 0x21}[rng.Intn(4)]
				}
				emitSeq(gop, rng.Bool(), true, nil, ms, fmt.Sprintf("v:%02x h:%02x ", v, h))
				count("gate")
			}
		}
	}
	// gates: fixed cases (nil FieldBase under both versions, developer fields and 64-bit types under 1.0)
	for _, v := range []byte{0x10, 0x20, 0x11, 0x00} {
		for _, op := range []string{"encgate", "streamgate"} {
			x := fmt.Sprintf("v:%02x h:00 ", v)
			emitSeq(op, false, true, nil, one(realField(mnRecord, 3, proto.Uint8(70))), x)
			emitSeq(op, false, true, nil, one(realField(mnRecord, 3, proto.Uint8(70)), proto.Field{Value: proto.Uint8(1)}), x)
			emitSeq(op, false, true, nil, one(proto.Field{Value: proto.Uint8(1)}), x)
			emitSeq(op, false, true, nil, one(mkField(1, basetype.Uint64, proto.Uint64(5))), x)
			emitSeq(op, false, true, nil, one(mkField(1, basetype.Uint64, proto.Uint64(math.MaxUint64))), x)
			emitSeq(op, false, true, nil, one(mkField(1, basetype.Sint64, proto.Int64(5)), proto.Field{Value: proto.Uint8(1)}), x)
			emitSeq(op, false, true, nil, one(proto.Field{Value: proto.Uint8(1)}, mkField(1, basetype.Sint64, proto.Int64(5))), x)
			emitSeq(op, false, true, nil, []proto.Message{ddi0, fd0, rec(dval(0, 1, proto.Uint8(5)))}, x)
			emitSeq(op, false, true, nil, []proto.Message{rec(), {Num: mnRecord}}, x)
			emitSeq(op, true, true, nil, []proto.Message{rec(), one(mkField(1, basetype.String, proto.String("\xff")))[0], rec()}, x)
		}
	}
	// --- i. the restoration arithmetic, run INSIDE the model only (fam_validate_arith.go)
	insideOnly = true
	genValidateArith(emitSeq, thorough, rng)
	insideOnly = false
	// --- j. state a validator could keep stale: sequences with colliding native mappings, re-descriptions, Reset (fam_validate_state.go)
	genValidateState(emitSeq, thorough, rng)
	// --- k. SEVERAL sequences through ONE real Encoder / StreamEncoder (fam_validate_seqs.go)
	genValidateSeqs(emitSeq, thorough, rng)
}

func genProtoValidate(emit func(string), tier string, rng *Rng) {
	versions := []byte{0x10, 0x20, 0x11, 0x1f, 0x00, 0x01, 0x30, 0xff}
	pv := func(v byte, m proto.Message) { emit(fmt.Sprintf("pvalidate v:%02x %s", v, printMessage(&m))) }
	nilF := proto.Field{Value: proto.Uint8(1)}
	for _, v := range versions {
		// every base-type byte in a single field, in first / last position among harmless fields
		for bt := 0; bt < 256; bt++ {
			f := mkField(1, basetype.BaseType(bt), proto.Uint8(1))
			ok := mkField(2, basetype.Uint8, proto.Uint8(1))
			pv(v, proto.Message{Num: mnRecord, Fields: []proto.Field{f}})
			pv(v, proto.Message{Num: mnRecord, Fields: []proto.Field{ok, ok, f}})
			if bt%16 == 0 {
				pv(v, proto.Message{Num: mnRecord, Fields: []proto.Field{f, nilF}})
				pv(v, proto.Message{Num: mnRecord, Fields: []proto.Field{nilF, f}})
			}
			count("basetype")
		}
		pv(v, proto.Message{Num: mnRecord})
		pv(v, proto.Message{Num: mnRecord, Fields: []proto.Field{nilF}})
		pv(v, proto.Message{Num: mnRecord, Fields: []proto.Field{mkField(1, basetype.Uint8, proto.Uint8(1)), nilF}})
		pv(v, proto.Message{Num: mnRecord, DeveloperFields: []proto.DeveloperField{{Num: 1, DeveloperDataIndex: 0, Value: proto.Uint8(1)}}})
		pv(v, proto.Message{Num: mnRecord, Fields: []proto.Field{nilF}, DeveloperFields: []proto.DeveloperField{{Num: 1, Value: proto.Uint8(1)}}})
		pv(v, proto.Message{Num: mnRecord, Fields: []proto.Field{mkField(1, basetype.Uint64, proto.Uint64(1))}, DeveloperFields: []proto.DeveloperField{{Num: 1, Value: proto.Uint8(1)}}})
		// definitions
		for nd := 0; nd <= 2; nd++ {
			for bt := 0; bt < 256; bt++ {
				emit(fmt.Sprintf("pvalidatedef v:%02x dev:%d bts:02%02x", v, nd, bt))
			}
			emit(fmt.Sprintf("pvalidatedef v:%02x dev:%d bts:", v, nd))
		}
	}
	n := 20000
	if tier == "thorough" {
		n = 300000
	}
	for i := 0; i < n; i++ {
		m := proto.Message{Num: typedef.MesgNum(rng.Intn(300))}
		for k := rng.Intn(8); k > 0; k-- {
			m.Fields = append(m.Fields, randField(rng, byte(k)))
		}
		if rng.Intn(5) == 0 {
			m.DeveloperFields = append(m.DeveloperFields, proto.DeveloperField{Num: 1, Value: proto.Uint8(1)})
		}
		v := versions[rng.Intn(len(versions))]
		if rng.Intn(3) == 0 {
			v = byte(rng.Intn(256))
		}
		pv(v, m)
		count("random")
	}
}
