package main

import (
	"bytes"
	"encoding/hex"
	"fmt"
	"io"
	"strconv"
	"strings"
	"testing/iotest"

	"github.com/muktihari/fit/kit/hash/crc16"
)

func init() {
	families["crc"] = genCrc
	executors["crc"] = execCrc
	executors["crcx"] = execCrcX
}

// crc <tok>... : tok ∈ w:<hex> | reset | sum16 | sum:<hex> | size | blocksize.
// Answer: the outputs of the observing tokens, in order, then "st=<final state>".
func execCrc(args []string) string {
	h := crc16.New()
	var out []string
	wi := 0
	for _, a := range args {
		switch {
		case strings.HasPrefix(a, "w:"):
			b, err := hex.DecodeString(a[2:])
			if err != nil {
				return "bad-op"
			}
			// "however they are written": the bytes reach the hash through Write, io.WriteString or io.Copy
			// (sources that deliver the last data together with io.EOF, or byte by byte); on a hash.Hash16
			// without further methods all of these end in Write, and must keep doing so if WriteString /
			// ReadFrom fast paths are ever added (seeded changes C18-2, C18-3)
			var n int
			switch (wi + len(b)) % 4 {
			case 0:
				n, err = h.Write(b)
			case 1:
				n, err = io.WriteString(h, string(b))
			case 2:
				var m int64
				m, err = io.Copy(h, struct{ io.Reader }{iotest.DataErrReader(bytes.NewReader(b))})
				n = int(m)
			default:
				var m int64
				m, err = io.Copy(h, struct{ io.Reader }{iotest.OneByteReader(bytes.NewReader(b))})
				n = int(m)
			}
			wi++
			if n != len(b) || err != nil {
				out = append(out, "werr")
			}
		case a == "reset":
			h.Reset()
		case a == "sum16":
			out = append(out, fmt.Sprintf("%04x", h.Sum16()))
		case strings.HasPrefix(a, "sum:"):
			b, err := hex.DecodeString(a[4:])
			if err != nil {
				return "bad-op"
			}
			out = append(out, "s"+hex.EncodeToString(h.Sum(b)))
		case a == "size":
			out = append(out, strconv.Itoa(h.Size()))
		case a == "blocksize":
			out = append(out, strconv.Itoa(h.BlockSize()))
		default:
			return "bad-op"
		}
	}
	out = append(out, fmt.Sprintf("st=%04x", h.Sum16()))
	return strings.Join(out, " ")
}

// crcx <b0 decimal>: for every b1, b2 in 0..255: fresh hash, Write([b0,b1]), Write([b2]), Sum16;
// answer is the FNV-1a-64 digest over the 65536 results (each folded in as two bytes, high first)
// and the number of distinct 2-byte-prefix states seen for this b0.
func execCrcX(args []string) string {
	if len(args) != 1 {
		return "bad-op"
	}
	b0, err := strconv.Atoi(args[0])
	if err != nil || b0 < 0 || b0 > 255 {
		return "bad-op"
	}
	d := uint64(0xcbf29ce484222325)
	mix := func(x byte) { d ^= uint64(x); d *= 0x100000001b3 }
	h := crc16.New()
	for b1 := 0; b1 < 256; b1++ {
		for b2 := 0; b2 < 256; b2++ {
			h.Reset()
			h.Write([]byte{byte(b0), byte(b1)})
			h.Write([]byte{byte(b2)})
			v := h.Sum16()
			mix(byte(v >> 8))
			mix(byte(v))
		}
	}
	return fmt.Sprintf("digest=%016x", d)
}

func genCrc(emit func(string), tier string, rng *Rng) {
	// exhaustive: all 3-byte strings = all (state, byte) pairs of the step function
	for b0 := 0; b0 < 256; b0++ {
		emit(fmt.Sprintf("crcx %d", b0))
	}
	// fixed vectors
	emit("crc sum16")
	emit("crc w:313233343536373839 sum16 sum: sum:aabb size blocksize")
	emit("crc w: sum16 w:00 sum16 w:ff sum16 reset sum16")
	n := 20000
	if tier == "thorough" {
		n = 400000
	}
	for i := 0; i < n; i++ {
		var toks []string
		toks = append(toks, "crc")
		// a random string under a random partition into writes, with occasional resets/observations
		total := 0
		switch rng.Intn(4) {
		case 0:
			total = rng.Intn(8)
		case 1:
			total = rng.Intn(64)
		case 2:
			total = rng.Intn(600)
		default:
			total = rng.Intn(10001)
		}
		if i%4 != 0 && total > 300 {
			total = rng.Intn(300)
		}
		data := rng.Bytes(total)
		if rng.Intn(8) == 0 { // low-entropy content
			for j := range data {
				data[j] = []byte{0, 0xff, 0x80, 1}[rng.Intn(4)]
			}
		}
		pos := 0
		parts := 0
		for pos < len(data) || parts == 0 {
			k := 0
			switch rng.Intn(5) {
			case 0:
				k = 0
			case 1:
				k = 1
			case 2:
				k = rng.Intn(17)
			default:
				k = rng.Intn(len(data) - pos + 1)
			}
			if pos+k > len(data) {
				k = len(data) - pos
			}
			toks = append(toks, "w:"+hex.EncodeToString(data[pos:pos+k]))
			pos += k
			parts++
			switch rng.Intn(12) {
			case 0:
				toks = append(toks, "reset")
				count("reset")
			case 1:
				toks = append(toks, "sum16")
			case 2:
				toks = append(toks, "sum:"+hex.EncodeToString(rng.Bytes(rng.Intn(4))))
			case 3:
				toks = append(toks, "size", "blocksize")
			}
			if parts > 64 && pos < len(data) {
				toks = append(toks, "w:"+hex.EncodeToString(data[pos:]))
				pos = len(data)
			}
		}
		toks = append(toks, "sum16")
		count(fmt.Sprintf("len<%d", bucket(total)))
		count(fmt.Sprintf("parts<%d", bucket(parts)))
		emit(strings.Join(toks, " "))
	}
}

func bucket(n int) int {
	b := 1
	for b <= n {
		b *= 4
	}
	return b
}
